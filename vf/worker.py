"""Runs ONE harness condition under CrossHair; prints one JSON line.

usage: python -m vf.worker <gen_dir> <gen_module> <function> <timeout> <message_stub 0|1>
"""
import collections
import importlib
import json
import sys
import time


def main():
    gen_dir, modname, fname, timeout, msg_stub = sys.argv[1:6]
    sys.path.insert(0, gen_dir)
    sys.setrecursionlimit(5000)
    t0 = time.time()
    from vf import prelude

    if fname.startswith("c09_"):
        prelude.install_set_rewrite()
    prelude.install(message_stub=(msg_stub == "1"))
    from crosshair.core import analyze_function, run_checkables
    from crosshair.options import AnalysisOptionSet

    from crosshair import statespace

    decisions = [0]
    _orig_choose = statespace.StateSpace.choose_possible

    def _counting_choose(self, *a, **kw):
        decisions[0] += 1
        return _orig_choose(self, *a, **kw)

    statespace.StateSpace.choose_possible = _counting_choose
    mod = importlib.import_module(modname)
    fn = getattr(mod, fname)
    stats = collections.Counter()
    opts = AnalysisOptionSet(
        per_condition_timeout=float(timeout), report_all=True, stats=stats
    )
    out = []
    try:
        checkables = analyze_function(fn, opts)
        msgs = run_checkables(checkables)
        for m in msgs:
            out.append(
                {
                    "state": m.state.name,
                    "message": m.message,
                    "line": m.line,
                    "traceback": (m.traceback or "")[-1500:],
                }
            )
    except Exception as exc:  # harness/engine failure, not a verdict
        import traceback

        out.append({"state": "ENGINE_ERR", "message": repr(exc), "traceback": traceback.format_exc()[-2000:]})
    print(
        "VFRESULT "
        + json.dumps(
            {
                "harness": fname,
                "messages": out,
                "num_paths": stats.get("num_paths", 0),
                "decisions": decisions[0],
                "stats": {k: v for k, v in stats.items() if isinstance(v, (int, float))},
                "cpu_s": round(time.process_time(), 2),
                "wall_s": round(time.time() - t0, 2),
            }
        )
    )


if __name__ == "__main__":
    main()
