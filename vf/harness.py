"""Harness description objects."""
import re
import textwrap
from dataclasses import dataclass, field
from typing import List, Optional


@dataclass
class H:
    name: str
    src: str  # complete `def name(...):` source with PEP-316 docstring
    tier: str = "quick"  # "quick": run in both tiers; "thorough": thorough only
    timeout: int = 40  # CrossHair per-condition budget (CPU s)
    kind: str = "claim"  # "claim" | "witness" (reachability twin: MUST be refuted)
    expect: str = "confirmed"  # calibrated status on the unchanged tree
    covers: str = ""  # one-line description (goes to evidence)
    group: str = ""  # family label
    message_stub: bool = True  # False: run with real error-message formatting

    def __post_init__(self):
        self.src = textwrap.dedent(self.src).strip("\n") + "\n"
        m = re.match(r"def\s+(\w+)\s*\(", self.src)
        if not m or m.group(1) != self.name:
            raise ValueError(f"harness name {self.name!r} does not match source def")

    @property
    def pre_lines(self) -> List[str]:
        return [l.strip() for l in self.src.splitlines() if l.strip().startswith("pre:")]

    @property
    def post_lines(self) -> List[str]:
        return [l.strip() for l in self.src.splitlines() if l.strip().startswith("post:")]


def mk(name, args, pre, body, post="_", **kw) -> H:
    """Build a harness from pieces.
    args: "a: int, b: str"; pre: list of expression strings; body: code text
    (must `return` the value tested by post)."""
    doc = "\n".join(["    pre: " + p for p in pre] + ["    post: " + post])
    body = textwrap.indent(textwrap.dedent(body).strip("\n"), "    ")
    src = f'def {name}({args}):\n    """\n{doc}\n    """\n{body}\n'
    return H(name=name, src=src, **kw)
