"""E2: AST -> SMT translation of small arithmetic kernels (here: MultipleOf._validate).

The function's CURRENT source is read with inspect+ast on every run and
interpreted symbolically over z3 terms: Python ints are z3 Ints, Python floats
are IEEE-754 doubles (z3 FP sort, RNE), with CPython's exception semantics:

  int / float, int % float  : the int operand is converted to float; OverflowError
                              when it rounds to >= 2**1024 in magnitude
  float / float             : IEEE division (ZeroDivisionError on zero divisor)
  int(f)                    : OverflowError on inf, ValueError on nan, else truncation
  i == f, i != f            : exact mathematical comparison
  a % b (ints)              : Python floor-mod (ZeroDivisionError on zero)
  a % b (a float involved)  : exact fmod with Python's sign rule; only its truthiness
                              is modelled (non-zero  <=>  a is not an exact multiple of b)

Supported statements: Assign to a name, If, Try/except <ExceptionName>, Raise <Name>,
Return (no value), Expr.  Anything else -> Unsupported (the caller reports
'encoding not applicable to current source', exit code 3, never a VIOLATION).

The result of interpretation is a list of (guard, outcome) with outcome one of
'return' | 'raise:<Name>'.
"""
import ast
import inspect
import textwrap
import time

import z3

F64 = z3.Float64()
RNE = z3.RNE()
MAXF = z3.FPVal(1.7976931348623157e308, F64)
# an int i converts to a finite double iff |i| < 2**1024 - 2**970 (round-to-nearest-even threshold)
INT_FLOAT_LIMIT = 2 ** 1024 - 2 ** 970


class Unsupported(Exception):
    pass


class PyRaise(Exception):
    def __init__(self, name):
        self.name = name


class Val:
    """symbolic Python value: kind in {'int','float','bool'} + z3 term"""

    def __init__(self, kind, term, from_float=None):
        self.kind = kind
        self.term = term
        # for ints produced by int(<float>): the integral float they came from (exactly equal
        # in value), so that comparisons with floats can stay inside the FP theory
        self.from_float = from_float


class Path:
    def __init__(self, guard, env):
        self.guard = guard
        self.env = dict(env)


class Interp:
    def __init__(self, fn, env_factory):
        src = textwrap.dedent(inspect.getsource(fn))
        self.tree = ast.parse(src).body[0]
        if not isinstance(self.tree, ast.FunctionDef):
            raise Unsupported("not a function")
        self.env_factory = env_factory
        self.outcomes = []  # (guard, outcome)

    # ---- expression evaluation: returns list of (guard, Val | PyRaise)
    def ev(self, node, env):
        if isinstance(node, ast.Name):
            if node.id not in env:
                raise Unsupported("unknown name %s" % node.id)
            return [(z3.BoolVal(True), env[node.id])]
        if isinstance(node, ast.Constant):
            c = node.value
            if isinstance(c, bool):
                return [(z3.BoolVal(True), Val("bool", z3.BoolVal(c)))]
            if isinstance(c, int):
                return [(z3.BoolVal(True), Val("int", z3.IntVal(c)))]
            raise Unsupported("constant %r" % (c,))
        if isinstance(node, ast.Subscript):
            # self.params["multipleOf"]
            text = ast.unparse(node)
            if text in env:
                return [(z3.BoolVal(True), env[text])]
            raise Unsupported("subscript %s" % text)
        if isinstance(node, ast.Call):
            fname = ast.unparse(node.func)
            if fname == "isinstance" and len(node.args) == 2:
                (g, v), = self.ev(node.args[0], env)
                tname = ast.unparse(node.args[1])
                if tname == "float":
                    return [(g, Val("bool", z3.BoolVal(v.kind == "float")))]
                if tname == "int":
                    return [(g, Val("bool", z3.BoolVal(v.kind == "int")))]
                raise Unsupported("isinstance type %s" % tname)
            if fname == "float" and len(node.args) == 1:
                out = []
                for g, v in self.ev(node.args[0], env):
                    if isinstance(v, PyRaise):
                        out.append((g, v))
                    else:
                        out.extend(self.to_float(v, g))
                return out
            if fname == "int" and len(node.args) == 1:
                out = []
                for g, v in self.ev(node.args[0], env):
                    if isinstance(v, PyRaise):
                        out.append((g, v))
                    elif v.kind == "int":
                        out.append((g, v))
                    elif v.kind == "float":
                        t = v.term
                        out.append((z3.And(g, z3.fpIsInf(t)), PyRaise("OverflowError")))
                        out.append((z3.And(g, z3.fpIsNaN(t)), PyRaise("ValueError")))
                        rtz = z3.fpRoundToIntegral(z3.RTZ(), t)
                        r = z3.fpToReal(rtz)
                        out.append((z3.And(g, z3.Not(z3.fpIsInf(t)), z3.Not(z3.fpIsNaN(t))), Val("int", z3.ToInt(r), from_float=rtz)))
                    else:
                        raise Unsupported("int() of %s" % v.kind)
                return out
            raise Unsupported("call %s" % fname)
        if isinstance(node, ast.UnaryOp) and isinstance(node.op, ast.Not):
            return [(g, v if isinstance(v, PyRaise) else Val("bool", z3.Not(self.truth(v)))) for g, v in self.ev(node.operand, env)]
        if isinstance(node, ast.BinOp):
            out = []
            for g1, a in self.ev(node.left, env):
                if isinstance(a, PyRaise):
                    out.append((g1, a))
                    continue
                for g2, b in self.ev(node.right, env):
                    g = z3.And(g1, g2)
                    if isinstance(b, PyRaise):
                        out.append((g, b))
                        continue
                    out.extend(self.binop(node.op, a, b, g))
            return out
        if isinstance(node, ast.Compare) and len(node.ops) == 1:
            out = []
            for g1, a in self.ev(node.left, env):
                if isinstance(a, PyRaise):
                    out.append((g1, a))
                    continue
                for g2, b in self.ev(node.comparators[0], env):
                    g = z3.And(g1, g2)
                    if isinstance(b, PyRaise):
                        out.append((g, b))
                        continue
                    out.append((g, Val("bool", self.compare(node.ops[0], a, b))))
            return out
        raise Unsupported("expression %s" % ast.dump(node)[:80])

    def to_float(self, v, g):
        """(guard, Val|PyRaise) list converting v to a double the way CPython does for mixed arithmetic"""
        if v.kind == "float":
            return [(g, v)]
        if v.kind == "int":
            i = v.term
            too_big = z3.Or(i >= INT_FLOAT_LIMIT, i <= -INT_FLOAT_LIMIT)
            return [
                (z3.And(g, too_big), PyRaise("OverflowError")),
                (z3.And(g, z3.Not(too_big)), Val("float", z3.fpRealToFP(RNE, z3.ToReal(i), F64))),
            ]
        raise Unsupported("to_float of %s" % v.kind)

    def binop(self, op, a, b, g):
        out = []
        if isinstance(op, ast.Div):
            for ga, fa in self.to_float(a, g):
                if isinstance(fa, PyRaise):
                    out.append((ga, fa))
                    continue
                for gb, fb in self.to_float(b, ga):
                    if isinstance(fb, PyRaise):
                        out.append((gb, fb))
                        continue
                    zero = z3.fpIsZero(fb.term)
                    out.append((z3.And(gb, zero), PyRaise("ZeroDivisionError")))
                    if a.kind == "int" and b.kind == "int":
                        raise Unsupported("int/int true division")
                    out.append((z3.And(gb, z3.Not(zero)), Val("float", z3.fpDiv(RNE, fa.term, fb.term))))
            return out
        if isinstance(op, ast.Mod):
            if a.kind == "int" and b.kind == "int":
                zero = b.term == 0
                out.append((z3.And(g, zero), PyRaise("ZeroDivisionError")))
                # Python floor-mod for positive and negative divisors
                m = a.term % b.term  # z3: result in [0, |b|)
                py = z3.If(z3.And(b.term < 0, m != 0), m + b.term, m)
                out.append((z3.And(g, z3.Not(zero)), Val("int", py)))
                return out
            for ga, fa in self.to_float(a, g):
                if isinstance(fa, PyRaise):
                    out.append((ga, fa))
                    continue
                for gb, fb in self.to_float(b, ga):
                    if isinstance(fb, PyRaise):
                        out.append((gb, fb))
                        continue
                    zero = z3.fpIsZero(fb.term)
                    out.append((z3.And(gb, zero), PyRaise("ZeroDivisionError")))
                    # only truthiness is modelled: non-zero <=> not an exact multiple (fmod is exact)
                    k = z3.FreshInt("k")
                    ra, rb = z3.fpToReal(fa.term), z3.fpToReal(fb.term)
                    exact = z3.Exists([k], ra == z3.ToReal(k) * rb)
                    finite = z3.And(z3.Not(z3.fpIsInf(fa.term)), z3.Not(z3.fpIsNaN(fa.term)))
                    out.append((z3.And(gb, z3.Not(zero), finite), Val("modtruth", z3.Not(exact))))
                    out.append((z3.And(gb, z3.Not(zero), z3.Not(finite)), Val("modtruth", z3.BoolVal(True))))
            return out
        raise Unsupported("operator %s" % type(op).__name__)

    def real(self, v):
        if v.kind == "int":
            return z3.ToReal(v.term)
        if v.kind == "float":
            return z3.fpToReal(v.term)
        raise Unsupported("real of %s" % v.kind)

    def compare(self, op, a, b):
        if a.kind == "float" and b.kind == "float":
            eq = z3.fpEQ(a.term, b.term)
        elif a.kind == "int" and b.kind == "int":
            eq = a.term == b.term
        elif {a.kind, b.kind} == {"int", "float"}:
            f = a if a.kind == "float" else b
            i = a if a.kind == "int" else b
            finite = z3.And(z3.Not(z3.fpIsInf(f.term)), z3.Not(z3.fpIsNaN(f.term)))
            if i.from_float is not None:
                eq = z3.And(finite, z3.fpEQ(i.from_float, f.term))
            else:
                eq = z3.And(finite, z3.fpToReal(f.term) == z3.ToReal(i.term))
        else:
            raise Unsupported("compare %s/%s" % (a.kind, b.kind))
        if isinstance(op, ast.Eq):
            return eq
        if isinstance(op, ast.NotEq):
            return z3.Not(eq)
        raise Unsupported("comparison %s" % type(op).__name__)

    def truth(self, v):
        if v.kind in ("bool", "modtruth"):
            return v.term
        if v.kind == "int":
            return v.term != 0
        if v.kind == "float":
            return z3.Not(z3.fpIsZero(v.term))
        raise Unsupported("truth of %s" % v.kind)

    # ---- statements: returns list of Paths that fall through; records outcomes
    def run_block(self, stmts, paths, handlers):
        for st in stmts:
            nxt = []
            for p in paths:
                nxt.extend(self.run_stmt(st, p, handlers))
            paths = nxt
        return paths

    def raise_(self, guard, name, env, handlers):
        """dispatch an exception raised under `guard`; returns continuing paths"""
        for h_names, h_body, h_outer, h_cont in reversed(handlers):
            if name in h_names:
                cont = self.run_block(h_body, [Path(guard, env)], h_outer)
                h_cont.extend(cont)
                return
        self.outcomes.append((guard, "raise:" + name))

    def run_stmt(self, st, p, handlers):
        env = p.env
        if isinstance(st, ast.Expr) and isinstance(st.value, ast.Constant):
            return [p]  # docstring
        if isinstance(st, ast.Assign) and len(st.targets) == 1 and isinstance(st.targets[0], ast.Name):
            out = []
            for g, v in self.ev(st.value, env):
                gg = z3.And(p.guard, g)
                if isinstance(v, PyRaise):
                    self.raise_(gg, v.name, env, handlers)
                else:
                    q = Path(gg, env)
                    q.env[st.targets[0].id] = v
                    out.append(q)
            return out
        if isinstance(st, ast.If):
            out = []
            for g, v in self.ev(st.test, env):
                gg = z3.And(p.guard, g)
                if isinstance(v, PyRaise):
                    self.raise_(gg, v.name, env, handlers)
                    continue
                t = z3.simplify(self.truth(v))
                if not z3.is_false(t):
                    out.extend(self.run_block(st.body, [Path(z3.And(gg, t), env)], handlers))
                if not z3.is_true(t):
                    out.extend(self.run_block(st.orelse, [Path(z3.And(gg, z3.Not(t)), env)], handlers))
            return out
        if isinstance(st, ast.Raise):
            name = ast.unparse(st.exc) if st.exc is not None else None
            if name is None:
                raise Unsupported("bare raise")
            name = name.split("(")[0].split(".")[0]
            self.raise_(p.guard, name, env, handlers)
            return []
        if isinstance(st, ast.Return):
            if st.value is not None and not (isinstance(st.value, ast.Constant) and st.value.value is None):
                # the returned value itself is not modelled, only whether evaluating it raises
                for g, v in self.ev(st.value, env):
                    gg = z3.And(p.guard, g)
                    if isinstance(v, PyRaise):
                        self.raise_(gg, v.name, env, handlers)
                    else:
                        self.outcomes.append((gg, "return"))
                return []
            self.outcomes.append((p.guard, "return"))
            return []
        if isinstance(st, ast.Try):
            if st.finalbody or st.orelse:
                raise Unsupported("try/finally/else")
            conts = []
            hs = list(handlers)
            for h in st.handlers:
                if h.type is None:
                    raise Unsupported("bare except")
                names = [ast.unparse(e) for e in (h.type.elts if isinstance(h.type, ast.Tuple) else [h.type])]
                hs.append((names, h.body, handlers, conts))
            out = self.run_block(st.body, [p], hs)
            return out + conts
        raise Unsupported("statement %s" % type(st).__name__)

    def run(self, env):
        paths = self.run_block(self.tree.body, [Path(z3.BoolVal(True), env)], [])
        for p in paths:
            self.outcomes.append((p.guard, "return"))
        return self.outcomes


def multiple_of_outcomes(value_kind, m_kind):
    """symbolic outcomes of the CURRENT MultipleOf._validate for the given operand kinds"""
    from statham.schema.validation.numeric import MultipleOf

    v = z3.Int("v") if value_kind == "int" else z3.FP("v", F64)
    m = z3.Int("m") if m_kind == "int" else z3.FP("m", F64)
    env = {"value": Val(value_kind, v), 'self.params["multipleOf"]': Val(m_kind, m), "self.params['multipleOf']": Val(m_kind, m)}
    it = Interp(MultipleOf._validate, None)
    argname = [a.arg for a in it.tree.args.args][1]
    env[argname] = env["value"]
    outcomes = it.run(env)
    # documented input domain: finite doubles, multipleOf > 0
    dom = []
    if value_kind == "float":
        dom += [z3.Not(z3.fpIsInf(v)), z3.Not(z3.fpIsNaN(v))]
    if m_kind == "float":
        dom += [z3.Not(z3.fpIsInf(m)), z3.Not(z3.fpIsNaN(m)), z3.fpGT(m, z3.FPVal(0.0, F64))]
    else:
        dom += [m > 0]
    return v, m, z3.And(*dom), outcomes


def number_construct_outcomes():
    """symbolic outcomes of the CURRENT Number.construct for an int value (float values are returned as is)"""
    from statham.schema.elements.numeric import Number

    v = z3.Int("v")
    it = Interp(Number.construct, None)
    argname = [a.arg for a in it.tree.args.args][1]
    env = {argname: Val("int", v)}
    for a in it.tree.args.args[2:]:
        env[a.arg] = Val("bool", z3.BoolVal(True))  # the property argument: opaque
    return v, it.run(env)


def number_construct_concrete(v):
    from statham.schema.elements.numeric import Number
    from statham.schema.exceptions import ValidationError

    try:
        Number()(v)
        return "return"
    except ValidationError:
        return "raise:ValidationError"
    except Exception as exc:  # noqa
        return "raise:" + type(exc).__name__


def concrete_outcome(v, m):
    """run the real validator on concrete operands"""
    from statham.schema.validation.numeric import MultipleOf
    from statham.schema.exceptions import ValidationError

    try:
        MultipleOf(m)._validate(v)
        return "return"
    except ValidationError:
        return "raise:ValidationError"
    except Exception as exc:  # noqa
        return "raise:" + type(exc).__name__


def model_value(model, term, kind):
    val = model.eval(term, model_completion=True)
    if kind == "int":
        return val.as_long()
    # FP numeral -> python float
    if z3.is_fp(val):
        if z3.fpIsNaN(val) is True:
            return float("nan")
        s = val.as_string() if hasattr(val, "as_string") else str(val)
        try:
            sign = -1.0 if val.sign() else 1.0
            if val.isInf():
                return sign * float("inf")
            if val.isNaN():
                return float("nan")
            if val.isZero():
                return sign * 0.0
            sig = val.significand_as_long()
            exp = val.exponent_as_long(biased=False)
            if val.isSubnormal():
                return sign * sig * 2.0 ** (-1074)
            return sign * (1.0 + sig / 2.0 ** 52) * 2.0 ** exp
        except Exception:
            return float(eval(s))
    raise ValueError(val)


def solve(constraints, timeout_s=60):
    s = z3.Solver()
    s.set("timeout", int(timeout_s * 1000))
    s.add(*constraints)
    t0 = time.time()
    r = s.check()
    return str(r), (s.model() if str(r) == "sat" else None), time.time() - t0


def solve_cvc5(smt2, timeout_s=120):
    """second opinion from the cvc5 wheel; returns 'sat' | 'unsat' | 'unknown' | 'unavailable'"""
    try:
        import cvc5
    except Exception:
        return "unavailable", 0.0
    t0 = time.time()
    try:
        slv = cvc5.Solver()
        slv.setOption("tlimit-per", str(int(timeout_s * 1000)))
        slv.setLogic("ALL")
        parser = cvc5.InputParser(slv)
        parser.setStringInput(cvc5.InputLanguage.SMT_LIB_2_6, smt2.replace("(set-info :status unknown)", ""), "q")
        sm = parser.getSymbolManager()
        res = "unknown"
        while True:
            cmd = parser.nextCommand()
            if cmd.isNull():
                break
            out = str(cmd.invoke(slv, sm)).strip()
            if out in ("sat", "unsat", "unknown"):
                res = out
        return res, time.time() - t0
    except Exception as exc:  # noqa
        return "error:" + type(exc).__name__, time.time() - t0


def validate_translator():
    """push the repo's own multipleOf test inputs (tests/test_validators.py, tests/schema/elements/test_numeric.py
    style cases) plus boundary literals through both the real function and the encoding"""
    cases = [
        (4, 2), (5, 2), (0, 3), (-9, 3), (7, 7), (1, 10 ** 30), (10 ** 30, 10 ** 15),
        (1.5, 0.5), (1.0, 0.3), (0.75, 0.25), (2.5, 2.5), (1e308, 0.1), (5e-324, 0.25), (-3.0, 1.5),
        (3, 0.5), (3, 0.4), (10 ** 400, 0.5), (2 ** 53 + 1, 1.0), (7, 2.0),
        (1.5, 3), (6.0, 3), (1.5, 10 ** 400), (-7.5, 5), (1e308, 3),
    ]
    bad = []
    for v, m in cases:
        vk = "float" if isinstance(v, float) else "int"
        mk = "float" if isinstance(m, float) else "int"
        sv, sm, dom, outs = multiple_of_outcomes(vk, mk)
        real = concrete_outcome(v, m)
        bind = [sv == (z3.IntVal(v) if vk == "int" else z3.FPVal(v, F64)), sm == (z3.IntVal(m) if mk == "int" else z3.FPVal(m, F64))]
        got = None
        for g, o in outs:
            r, _, _ = solve(bind + [g], 30)
            if r == "sat":
                got = o if got is None else got + "|" + o
            elif r != "unsat":
                got = (got or "") + "|?" + o
        if got != real:
            bad.append({"value": repr(v), "multipleOf": repr(m), "real": real, "encoding": got})
    return len(cases), bad


def totality_obligations(timeout_s=90):
    """for every operand-kind combination: no outcome other than return / ValidationError is reachable
    on the documented domain (finite doubles, all ints, multipleOf > 0)"""
    res = []
    for vk in ("int", "float"):
        for mk in ("int", "float"):
            v, m, dom, outs = multiple_of_outcomes(vk, mk)
            for g, o in outs:
                if o in ("return", "raise:ValidationError"):
                    continue
                r, model, t = solve([dom, g], timeout_s)
                rec = {"query": f"MultipleOf._validate[{vk} value, {mk} multipleOf] can {o}", "result": r, "solver_s": round(t, 2)}
                if model is not None:
                    cv, cm = model_value(model, v, vk), model_value(model, m, mk)
                    rec["counterexample"] = {"value": repr(cv), "multipleOf": repr(cm)}
                    rec["replay"] = concrete_outcome(cv, cm)
                res.append(rec)
    return res


def number_construct_obligations(timeout_s=60):
    res = []
    v, outs = number_construct_outcomes()
    for g, o in outs:
        if o in ("return", "raise:ValidationError"):
            continue
        r, model, t = solve([g], timeout_s)
        rec = {"query": f"Number.construct[int value] can {o}", "result": r, "solver_s": round(t, 2)}
        if model is not None:
            cv = model_value(model, v, "int")
            rec["counterexample"] = {"value": repr(cv)}
            rec["replay"] = number_construct_concrete(cv)
        res.append(rec)
    if not res:
        res.append({"query": "Number.construct[int value]: every path returns or raises ValidationError", "result": "unsat", "solver_s": 0.0})
    return res


def grid_obligations(width, timeout_s=240, with_cvc5=True):
    """float value, float multipleOf on the quarter grid v = k1/4, m = k2/4 with |k| < 2**(width-1):
    the encoding of the real kernel accepts iff k1 mod k2 == 0"""
    res = []
    v, m, dom, outs = multiple_of_outcomes("float", "float")
    k1, k2 = z3.BitVecs("k1 k2", width)
    four = z3.FPVal(4.0, F64)
    grid = z3.And(k2 > 0, k1 != z3.BitVecVal(1 << (width - 1), width),
                  v == z3.fpDiv(RNE, z3.fpSignedToFP(RNE, k1, F64), four),
                  m == z3.fpDiv(RNE, z3.fpSignedToFP(RNE, k2, F64), four))
    accept = z3.Or(*[g for g, o in outs if o == "return"])
    reject = z3.Or(*[g for g, o in outs if o == "raise:ValidationError"])
    other = z3.Or(*([g for g, o in outs if o not in ("return", "raise:ValidationError")] or [z3.BoolVal(False)]))
    spec = z3.SRem(k1, k2) == 0
    for name, q in (("accepts a non-multiple", z3.And(accept, z3.Not(spec))), ("rejects a multiple", z3.And(reject, spec)), ("raises something else", other)):
        s = z3.Solver()
        s.add(dom, grid, q)
        r, model, t = solve([dom, grid, q], timeout_s)
        rec = {"query": f"quarter grid width {width}: kernel {name}", "result": r, "solver_s": round(t, 2)}
        if with_cvc5:
            r2, t2 = solve_cvc5(s.to_smt2(), timeout_s)
            rec["cvc5"] = r2
            rec["cvc5_s"] = round(t2, 2)
            if r == "unknown" and r2 in ("sat", "unsat"):
                rec["result"] = r2
            elif r2 in ("sat", "unsat") and r in ("sat", "unsat") and r != r2:
                rec["result"] = "solver-disagreement"
        if model is not None:
            a = model.eval(k1, model_completion=True).as_signed_long()
            b = model.eval(k2, model_completion=True).as_signed_long()
            rec["counterexample"] = {"value": repr(a / 4), "multipleOf": repr(b / 4)}
            rec["replay"] = concrete_outcome(a / 4, b / 4)
            rec["expected_accept"] = (a % b == 0)
        res.append(rec)
    return res
