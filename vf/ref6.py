"""ref6: reference JSON-Schema Draft-6 validator for the keywords statham supports.

Trusted oracle, deliberately short and direct; written in the subset of Python
that CrossHair executes symbolically so that it runs on the same symbolic inputs
as the real code.  Cross-checked against jsonschema.Draft6Validator on every
witness / counterexample (vf.runner) -- a disagreement is a harness error.

Documented statham deviations built in:
  * "integer" <=> Python int and not bool  (1.0 is NOT an integer)
  * "format" never rejects here (C16 owns format checking)
  * a required property whose own schema declares a "default" may be omitted
    (REQUIRED_DEFAULT_WAIVED: the harness says which reading applies)
  * "pattern"/"patternProperties" use re.search
"""
import re


def jeq(a, b):
    """Type-aware JSON equality: bool never equals a number; 1 == 1.0; deep."""
    if isinstance(a, bool) or isinstance(b, bool):
        return isinstance(a, bool) and isinstance(b, bool) and a == b
    if a is None or b is None:
        return a is None and b is None
    if isinstance(a, (int, float)):
        return isinstance(b, (int, float)) and a == b
    if isinstance(a, str):
        return isinstance(b, str) and a == b
    if isinstance(a, list):
        if not isinstance(b, list) or len(a) != len(b):
            return False
        for i in range(len(a)):
            if not jeq(a[i], b[i]):
                return False
        return True
    if isinstance(a, dict):
        if not isinstance(b, dict) or len(a) != len(b):
            return False
        for k in a:
            if k not in b or not jeq(a[k], b[k]):
                return False
        return True
    return False


def _is_num(v):
    return isinstance(v, (int, float)) and not isinstance(v, bool)


def _type_ok(t, v):
    if t == "null":
        return v is None
    if t == "boolean":
        return isinstance(v, bool)
    if t == "integer":
        return isinstance(v, int) and not isinstance(v, bool)
    if t == "number":
        return _is_num(v)
    if t == "string":
        return isinstance(v, str)
    if t == "array":
        return isinstance(v, list)
    if t == "object":
        return isinstance(v, dict)
    raise ValueError("bad type %r" % (t,))


def resolve(root, ref):
    if not ref.startswith("#"):
        raise ValueError("only local refs: %r" % (ref,))
    node = root
    for part in ref[1:].split("/"):
        if part == "":
            continue
        part = part.replace("~1", "/").replace("~0", "~")
        if isinstance(node, list):
            node = node[int(part)]
        else:
            node = node[part]
    return node


def ref6(schema, v, root=None, waive_default=True):
    """True iff `v` is valid against `schema` under Draft 6 (+ deviations)."""
    if root is None:
        root = schema
    if schema is True:
        return True
    if schema is False:
        return False
    if "$ref" in schema:
        return ref6(resolve(root, schema["$ref"]), v, root, waive_default)
    if "type" in schema:
        t = schema["type"]
        if isinstance(t, list):
            ok = False
            for one in t:
                if _type_ok(one, v):
                    ok = True
            if not ok:
                return False
        elif not _type_ok(t, v):
            return False
    if "const" in schema and not jeq(schema["const"], v):
        return False
    if "enum" in schema:
        found = False
        for e in schema["enum"]:
            if jeq(e, v):
                found = True
        if not found:
            return False
    if _is_num(v):
        if "minimum" in schema and v < schema["minimum"]:
            return False
        if "maximum" in schema and v > schema["maximum"]:
            return False
        if "exclusiveMinimum" in schema and v <= schema["exclusiveMinimum"]:
            return False
        if "exclusiveMaximum" in schema and v >= schema["exclusiveMaximum"]:
            return False
        if "multipleOf" in schema:
            m = schema["multipleOf"]
            if isinstance(v, int) and isinstance(m, int):
                if v % m != 0:
                    return False
            else:
                q = v / m
                if q != int(q):
                    return False
    if isinstance(v, str):
        if "minLength" in schema and len(v) < schema["minLength"]:
            return False
        if "maxLength" in schema and len(v) > schema["maxLength"]:
            return False
        if "pattern" in schema and not re.search(schema["pattern"], v):
            return False
    if isinstance(v, list):
        if "minItems" in schema and len(v) < schema["minItems"]:
            return False
        if "maxItems" in schema and len(v) > schema["maxItems"]:
            return False
        if schema.get("uniqueItems", False):
            for i in range(len(v)):
                for j in range(i + 1, len(v)):
                    if jeq(v[i], v[j]):
                        return False
        if "items" in schema:
            items = schema["items"]
            if isinstance(items, list):
                for i in range(len(v)):
                    if i < len(items):
                        if not ref6(items[i], v[i], root, waive_default):
                            return False
                    elif "additionalItems" in schema:
                        if not ref6(schema["additionalItems"], v[i], root, waive_default):
                            return False
            else:
                for x in v:
                    if not ref6(items, x, root, waive_default):
                        return False
        if "contains" in schema:
            hit = False
            for x in v:
                if ref6(schema["contains"], x, root, waive_default):
                    hit = True
            if not hit:
                return False
    if isinstance(v, dict):
        if "minProperties" in schema and len(v) < schema["minProperties"]:
            return False
        if "maxProperties" in schema and len(v) > schema["maxProperties"]:
            return False
        props = schema.get("properties", {})
        for name in schema.get("required", []):
            if name not in v:
                ps = props.get(name, True)
                if waive_default and isinstance(ps, dict) and "default" in ps:
                    continue
                return False
        pats = schema.get("patternProperties", {})
        for k in v:
            matched = False
            if k in props:
                matched = True
                if not ref6(props[k], v[k], root, waive_default):
                    return False
            for p in pats:
                if re.search(p, k):
                    matched = True
                    if not ref6(pats[p], v[k], root, waive_default):
                        return False
            if not matched and "additionalProperties" in schema:
                if not ref6(schema["additionalProperties"], v[k], root, waive_default):
                    return False
            if "propertyNames" in schema:
                if not ref6(schema["propertyNames"], k, root, waive_default):
                    return False
        deps = schema.get("dependencies", {})
        for k in deps:
            if k in v:
                d = deps[k]
                if isinstance(d, list):
                    for name in d:
                        if name not in v:
                            return False
                elif not ref6(d, v, root, waive_default):
                    return False
    if "allOf" in schema:
        for s in schema["allOf"]:
            if not ref6(s, v, root, waive_default):
                return False
    if "anyOf" in schema:
        ok = False
        for s in schema["anyOf"]:
            if ref6(s, v, root, waive_default):
                ok = True
        if not ok:
            return False
    if "oneOf" in schema:
        n = 0
        for s in schema["oneOf"]:
            if ref6(s, v, root, waive_default):
                n += 1
        if n != 1:
            return False
    if "not" in schema:
        if ref6(schema["not"], v, root, waive_default):
            return False
    return True


_ROOT = object()


def deref(doc, node=_ROOT, depth=0):
    """Inline every local $ref of a (small, acyclic) document: fresh copy."""
    if node is _ROOT:
        node = doc
    if depth > 40:
        raise RecursionError("cyclic $ref")
    if isinstance(node, dict):
        if "$ref" in node:
            return deref(doc, resolve(doc, node["$ref"]), depth + 1)
        return {k: deref(doc, val, depth + 1) for k, val in node.items()}
    if isinstance(node, list):
        return [deref(doc, x, depth + 1) for x in node]
    return node
