"""Harness-side stubs applied ONLY in symbolic (CrossHair) runs.

Every item here is part of every claim and is listed in each evidence file
(see DESIGN.md 2.2).  Replay of counterexamples and reachability witnesses runs
WITHOUT this module, against the unmodified library.
"""
import functools

STUBS = [
    "error-message formatting stubbed (ValidationError.from_validator/combine/"
    "multiple_composition_match -> cls('stub'); Validator.error_message -> '')",
    "ObjectMeta.__new__ runs under NoTracing (signature preserved)",
    "CrossHair contract enforcement interception disabled",
    "ObjectMeta.__hash__: the real one while statham code runs (traced, or untraced inside a harness real_hash() block); identity hash for CrossHair's own untraced internals (ABC caches)",
    "module-global `set` in statham.serializers.python / statham.schema.parser "
    "replaced by an insertion-ordered set model",
    "format() of Element/_Property objects returns a placeholder",
    "exec/eval/compile of symbolic text via crosshair.realize",
    "CrossHair float representation pinned to RealBasedSymbolicFloat (floats as reals, CrossHair's UNKNOWN cap for that model lifted: int->float conversion and int/float comparison are exact in this model; rounding of |v| > 2**53 and float arithmetic are outside every E1 claim)",
    "_AnonymousObject.__getattr__ raises AttributeError (not KeyError) for CrossHair's private '__ch_*' probes",
]


class OrderedSet:
    """Insertion-ordered set model (iteration order = insertion order, or a
    caller-chosen permutation for the C09 order oracle)."""

    order_hook = None  # callable(list)->list, set by C09 harnesses

    def __init__(self, it=()):
        self._l = []
        for x in it:
            self.add(x)

    def add(self, x):
        if not any(x == y for y in self._l):
            self._l.append(x)

    def __iter__(self):
        items = list(self._l)
        if OrderedSet.order_hook is not None:
            items = OrderedSet.order_hook(items)
        return iter(items)

    def __len__(self):
        return len(self._l)

    def __bool__(self):
        return bool(self._l)

    def __contains__(self, x):
        # fast, exact path for sets of single characters (first_chars in _parse_attribute_name):
        # one substring constraint instead of a 53-way fork
        if isinstance(x, str) and len(self._l) > 8:
            with_chars = True
            for y in self._l:
                if not (isinstance(y, str) and len(y) == 1):
                    with_chars = False
                    break
            if with_chars:
                return len(x) == 1 and x in "".join(self._l)
        return any(x == y for y in self._l)

    def __and__(self, other):
        return OrderedSet(x for x in self._l if x in other)

    __rand__ = __and__

    def __or__(self, other):
        r = OrderedSet(self._l)
        for x in other:
            r.add(x)
        return r

    __ror__ = __or__

    def __sub__(self, other):
        return OrderedSet(x for x in self._l if x not in other)

    def __rsub__(self, other):
        return OrderedSet(x for x in other if x not in self)

    def union(self, *others):
        r = OrderedSet(self._l)
        for o in others:
            for x in o:
                r.add(x)
        return r

    def __eq__(self, other):
        try:
            return len(self) == len(other) and all(x in other for x in self._l)
        except TypeError:
            return NotImplemented

    def __repr__(self):
        return "{" + ", ".join(repr(x) for x in self) + "}"


class _SetShim:
    """Stands in for the builtin name `set` inside a statham module."""

    def __call__(self, it=()):
        return OrderedSet(it)

    @staticmethod
    def union(first, *others):
        return OrderedSet(first).union(*others)

    def __instancecheck__(self, obj):  # pragma: no cover
        return isinstance(obj, (OrderedSet, set, frozenset))


_installed = False


def install(message_stub=True, set_shim=True):
    """Apply the symbolic-run stubs. Idempotent."""
    global _installed
    if _installed:
        return
    _installed = True
    from statham.schema.exceptions import ValidationError
    from statham.schema.validation.base import Validator
    from statham.schema.validation.object import AdditionalProperties
    from statham.schema.validation.string import Pattern

    if message_stub:
        ValidationError.from_validator = classmethod(lambda cls, p, v, m: cls("stub"))
        ValidationError.combine = classmethod(lambda cls, p, v, e, m: cls("stub"))
        ValidationError.multiple_composition_match = classmethod(
            lambda cls, m, d: cls("stub")
        )
        _msg = lambda self: ""
        Validator.error_message = _msg
        AdditionalProperties.error_message = _msg
        Pattern.error_message = _msg

    install_structural(set_shim=set_shim)

    from crosshair.tracers import NoTracing
    from crosshair import enforce
    import crosshair.core_and_libs  # noqa: F401
    from crosshair import core
    from crosshair.libimpl import builtinslib
    from statham.schema.elements.meta import ObjectMeta
    from statham.schema.elements.base import Element
    from statham.schema.property import _Property

    _orig_new = ObjectMeta.__new__

    from crosshair import realize as _ch_realize

    @functools.wraps(_orig_new)
    def _new(mcs, name, bases, classdict, **kw):
        # names must be real `str` objects before the untraced type() call (symbolic class / attribute
        # names are realised here; they would be realised by type.__new__ / dict hashing anyway)
        name = _ch_realize(name)
        props = getattr(classdict, "properties", None)
        if props:
            items = [(_ch_realize(k), val) for k, val in props.items()]
            props.clear()
            for k, val in items:
                props[k] = val
                # _Property.bind() (called from the untraced constructor) tests `source` for truth
                if getattr(val, "source", None) is not None:
                    val.source = _ch_realize(val.source)
        with NoTracing():
            return _orig_new(mcs, name, bases, classdict, **kw)

    ObjectMeta.__new__ = staticmethod(_new)
    enforce.EnforcedConditions.trace_call = lambda self, frame, fn, binding_target: None

    _orig_format = builtinslib._format

    def _fmt(obj, format_spec=""):
        with NoTracing():
            is_schema = isinstance(obj, (Element, _Property))
        return "<schema>" if is_schema else _orig_format(obj, format_spec)

    core._PATCH_REGISTRATIONS[format] = _fmt

    _orig_get = builtinslib.ModelingDirector.get

    def _get(self, typ):
        if typ is float:
            return builtinslib.RealBasedSymbolicFloat
        return _orig_get(self, typ)

    builtinslib.ModelingDirector.get = _get
    # CrossHair caps every path that touches a real-modelled float at UNKNOWN; we accept the
    # real model (stated in STUBS): statham only converts int->float and compares.
    from crosshair import statespace

    statespace.StateSpace.cap_result_at_unknown = lambda self: None


_structural = False
REAL_HASH = [0]


def _is_tracing():
    try:
        from crosshair.tracers import is_tracing

        return is_tracing()
    except Exception:  # noqa
        return False


class real_hash:
    """with real_hash(): ...   - concrete statham code run untraced by a harness sees the real ObjectMeta.__hash__"""

    def __enter__(self):
        REAL_HASH[0] += 1

    def __exit__(self, *a):
        REAL_HASH[0] -= 1
        return False



def install_structural(set_shim=True):
    """The stubs that do not need CrossHair (used by the prelude self-test)."""
    global _structural
    if _structural:
        return
    _structural = True
    from statham.schema.elements.meta import ObjectMeta

    _orig_hash = ObjectMeta.__hash__

    def _hash(cls):
        # The real hash (class name + property names, realised by the ObjectMeta.__new__ stub) while statham code runs:
        # under tracing, and inside harness blocks that run concrete code untraced (real_hash()).  CrossHair's own
        # untraced internals (ABC caches hashing type(x), then comparing colliding classes that hold symbolic values)
        # get the identity hash.
        if REAL_HASH[0] or _is_tracing():
            try:
                return _orig_hash(cls)
            except Exception:  # noqa
                pass
        return type.__hash__(cls)

    ObjectMeta.__hash__ = _hash
    from statham.schema.elements.base import _AnonymousObject

    _orig_ga = _AnonymousObject.__getattr__

    def _ga(self, key):
        if key.startswith("__ch_"):
            raise AttributeError(key)
        return _orig_ga(self, key)

    _AnonymousObject.__getattr__ = _ga
    if set_shim:
        import statham.serializers.python as sp
        import statham.schema.parser as pr

        shim = _SetShim()
        sp.set = shim
        pr.set = shim


def install_set_rewrite():
    """C09 only.  Meta-path hook: every statham module is compiled from an AST in which set displays
    `{a, b}` and set comprehensions are rewritten into calls of the module-global name `set`, so that the
    order-oracle shim (which replaces that name) reaches them too.  Must run before statham is imported."""
    import ast
    import importlib.abc
    import importlib.machinery
    import sys

    class Rewriter(ast.NodeTransformer):
        def visit_Set(self, node):
            self.generic_visit(node)
            return ast.copy_location(ast.Call(func=ast.Name(id="set", ctx=ast.Load()), args=[ast.List(elts=node.elts, ctx=ast.Load())], keywords=[]), node)

        def visit_SetComp(self, node):
            self.generic_visit(node)
            return ast.copy_location(ast.Call(func=ast.Name(id="set", ctx=ast.Load()), args=[ast.ListComp(elt=node.elt, generators=node.generators)], keywords=[]), node)

    class Loader(importlib.machinery.SourceFileLoader):
        def get_code(self, fullname):  # never use cached bytecode of the unrewritten source
            path = self.get_filename(fullname)
            return self.source_to_code(self.get_data(path), path)

        def source_to_code(self, data, path, *, _optimize=-1):
            tree = Rewriter().visit(ast.parse(data, path))
            ast.fix_missing_locations(tree)
            return compile(tree, path, "exec", dont_inherit=True, optimize=_optimize)

    class Finder(importlib.abc.MetaPathFinder):
        def find_spec(self, fullname, path, target=None):
            if fullname != "statham" and not fullname.startswith("statham."):
                return None
            spec = importlib.machinery.PathFinder.find_spec(fullname, path)
            if spec is not None and isinstance(spec.loader, importlib.machinery.SourceFileLoader):
                spec.loader = Loader(spec.loader.name, spec.loader.path)
            return spec

    if any(m == "statham" or m.startswith("statham.") for m in sys.modules):
        raise RuntimeError("install_set_rewrite() must run before statham is imported")
    sys.meta_path.insert(0, Finder())
