"""CLI: python -m vf.driver <property-id> [--tier quick|thorough] [--replay path] [--only substr]"""
import argparse
import os
import sys

from vf import runner


def main():
    ap = argparse.ArgumentParser()
    ap.add_argument("pid")
    ap.add_argument("--tier", default=os.environ.get("VERIF_TIER", "quick"), choices=["quick", "thorough"])
    ap.add_argument("--replay", default=None)
    ap.add_argument("--only", default=None)
    a = ap.parse_args()
    if a.replay:
        sys.exit(runner.do_replay(a.replay))
    seed = int(os.environ.get("VERIF_SEED", "0") or 0)
    sys.exit(runner.run_property(a.pid, a.tier, only=a.only, seed=seed))


if __name__ == "__main__":
    main()
