"""Helpers shared by all harness modules (imported with `from vf.common import *`).

Everything here must run both under CrossHair tracing and in a plain
interpreter (replay).  Only `Exception` is ever caught: CrossHair's
path-steering exceptions derive from BaseException.
"""
import copy
import inspect
import json
import re
import warnings
from typing import Any, Dict, List, Optional, Tuple, Union

from statham.schema.constants import NotPassed, Maybe
from statham.schema.exceptions import (
    ValidationError,
    SchemaParseError,
    FeatureNotImplementedError,
    SchemaDefinitionError,
    StathamError,
)
from statham.schema.parser import parse_element, parse
from statham.schema.elements.base import Element, Nothing, _AnonymousObject
from statham.schema.elements.meta import ObjectMeta, RESERVED_PROPERTIES
from statham.schema.elements.object import Object
from statham.schema.elements.array import Array
from statham.schema.elements.boolean import Boolean
from statham.schema.elements.null import Null
from statham.schema.elements.numeric import Integer, Number
from statham.schema.elements.string import String
from statham.schema.elements.composition import AllOf, AnyOf, OneOf, Not, CompositionElement
from statham.schema.property import Property, _Property, _PropertyDict
from statham.serializers.json import serialize_json
from statham.serializers.python import serialize_python
from statham.serializers.orderer import orderer, get_children, get_object_classes

from vf.ref6 import ref6, jeq, deref, resolve

try:  # present only in symbolic runs
    from crosshair import realize as _realize
    from crosshair.tracers import NoTracing, is_tracing
except Exception:  # pragma: no cover
    _realize = None


def realize(x):
    if _realize is None:
        return x
    try:
        if not is_tracing():
            return x
    except Exception:
        return x
    return _realize(x)


def concretize_int(x, lo, hi):
    """solver-forked enumeration of a bounded int by equality tests (exhaustible, unlike realize(),
    whose model-value nodes CrossHair never counts as exhausted)"""
    if not _tracing_early():
        return x
    for val in range(lo, hi + 1):
        if x == val:
            return val
    raise HarnessError("concretize_int: %r outside [%d, %d]" % (x, lo, hi))


def concretize_digits(x, ndigits):
    """same for a non-negative int below 10**ndigits, one decimal digit at a time (10*ndigits forks at most)"""
    if not _tracing_early():
        return x
    out = 0
    rest = x
    for p in range(ndigits - 1, -1, -1):
        unit = 10 ** p
        d = concretize_int(rest // unit, 0, 9)
        out += d * unit
        rest = rest - d * unit
    return out


def _tracing_early():
    if _realize is None:
        return False
    try:
        return bool(is_tracing())
    except Exception:
        return False


class Inconclusive(Exception):
    """Raised by a harness in replay mode when a symbolic counterexample is real but does not (within the
    replay's bounds) amount to a violation of the property - reported, neither alarmed nor counted."""


class HarnessError(Exception):
    """Raised by harness glue when the *harness*, not the library, is wrong."""


def accepts(el, v):
    """True = returned, False = ValidationError/TypeError. Others propagate."""
    try:
        el(v)
        return True
    except (ValidationError, TypeError):
        return False


def verdict(el, v):
    """(accepted, result) with result None when rejected."""
    try:
        return True, el(v)
    except (ValidationError, TypeError):
        return False, None


def outcome_kind(fn, *a):
    """'ok' | 'ValidationError' | 'TypeError' | other exception class name."""
    try:
        fn(*a)
        return "ok"
    except ValidationError:
        return "ValidationError"
    except TypeError:
        return "TypeError"
    except Exception as exc:  # noqa
        return type(exc).__name__


def jcopy(x):
    """Deep copy of JSON data (keeps symbolic leaves symbolic)."""
    if isinstance(x, dict):
        return {k: jcopy(val) for k, val in x.items()}
    if isinstance(x, list):
        return [jcopy(val) for val in x]
    return x


def is_json(x):
    """Only JSON types, recursively (no NotPassed, Element, _Property...)."""
    if x is None or isinstance(x, (bool, int, float, str)):
        return True
    if type(x) is list:
        return all(is_json(i) for i in x)
    if type(x) is dict:
        return all(isinstance(k, str) and is_json(val) for k, val in x.items())
    return False


def finite_json(x):
    """no NaN / infinity anywhere (they are not JSON values)"""
    if isinstance(x, float):
        return x == x and -1.7976931348623157e308 <= x <= 1.7976931348623157e308
    if isinstance(x, dict):
        return all(finite_json(val) for val in x.values())
    if isinstance(x, list):
        return all(finite_json(val) for val in x)
    return True


def parse_s(schema):
    """parse_element on a private copy (the parser mutates its argument)."""
    return parse_element(jcopy(schema))


_COUNTER = [0]


def plain(x):
    """Model / anonymous object / list -> plain JSON-ish structure keyed as the
    result exposes it (python names for declared properties)."""
    if isinstance(x, Object):
        return {k: plain(val) for k, val in x._dict.items()}
    if isinstance(x, dict):
        return {k: plain(val) for k, val in x.items()}
    if isinstance(x, list):
        return [plain(i) for i in x]
    return x


def result_eq(a, b):
    """Equality of two validation results (models compare by class name + members)."""
    if isinstance(a, Object) or isinstance(b, Object):
        if not (isinstance(a, Object) and isinstance(b, Object)):
            return False
        if type(a).__name__ != type(b).__name__:
            return False
        return result_eq(a._dict, b._dict)
    if isinstance(a, NotPassed) or isinstance(b, NotPassed):
        return isinstance(a, NotPassed) and isinstance(b, NotPassed)
    if isinstance(a, dict):
        if not isinstance(b, dict) or len(a) != len(b):
            return False
        for k in a:
            if k not in b or not result_eq(a[k], b[k]):
                return False
        return True
    if isinstance(a, list):
        if not isinstance(b, list) or len(a) != len(b):
            return False
        for i in range(len(a)):
            if not result_eq(a[i], b[i]):
                return False
        return True
    if isinstance(a, float) and isinstance(b, float):
        return a == b
    if type(a) is not type(b) and not (isinstance(a, (int, float)) and isinstance(b, (int, float)) and not isinstance(a, bool) and not isinstance(b, bool)):
        return False
    return jeq(a, b)


# ---------------------------------------------------------------- snapshots
def snapshot(x, _seen=None):
    """Deep, structural, order-sensitive image of an element tree: every
    attribute of every Element/_Property reachable, container *contents*
    included.  Two snapshots are compared with `==`."""
    if _seen is None:
        _seen = {}
    if isinstance(x, (Element, _Property)):
        key = id(x)
        if key in _seen:
            return ("<seen>", _seen[key])
        _seen[key] = len(_seen)
        if isinstance(x, ObjectMeta):
            names = [
                "default", "const", "enum", "required", "description", "properties",
                "minProperties", "maxProperties", "patternProperties",
                "additionalProperties", "propertyNames", "dependencies",
            ]
            attrs = [(n, snapshot(getattr(x, n, "<absent>"), _seen)) for n in names]
            bases = tuple(
                snapshot(b, _seen) for b in x.__mro__[1:] if isinstance(b, ObjectMeta) and b is not Object
            )
            return ("class", x.__name__, tuple(attrs), bases)
        if isinstance(x, _Property):
            return (
                "prop",
                x.required,
                x.source,
                x.name,
                "parent" if x.parent is not None else None,
                snapshot(x.element, _seen),
            )
        attrs = []
        for n in sorted(vars(x)):
            # the element's configuration = its public attributes (+ _properties), exactly the state
            # Element.__eq__, repr and the serializers read; private bookkeeping is not "the tree"
            if n.startswith("_") and n != "_properties":
                continue
            attrs.append((n, snapshot(vars(x)[n], _seen)))
        return ("elem", type(x).__name__, tuple(attrs))
    if isinstance(x, NotPassed):
        return "<NotPassed>"
    if isinstance(x, dict):
        return ("dict", tuple((k, snapshot(val, _seen)) for k, val in x.items()))
    if isinstance(x, (list, tuple)):
        return ("list", tuple(snapshot(i, _seen) for i in x))
    if isinstance(x, bool):
        return ("bool", x)
    if isinstance(x, float):
        return ("float", x)
    return x


# ---------------------------------------------------------------- code exec
def exec_module(text):
    """Execute generated module text in an empty namespace; returns namespace."""
    ns = {"__name__": "generated_module"}
    exec(compile(realize(text), "<generated>", "exec"), ns)  # noqa: S102
    return ns


def exec_generated(text):
    """exec of GENERATED code: any failure is the library's (returns None), never the harness's"""
    try:
        return exec_module(text)
    except Exception:  # noqa  (NameError / SyntaxError / TypeError ... in generated text)
        return None


def classes_of(ns):
    return {k: val for k, val in ns.items() if isinstance(val, ObjectMeta) and val is not Object}


PUBLIC_NS = None


def public_ns():
    """Namespace holding the public element classes, for eval(repr(e))."""
    global PUBLIC_NS
    if PUBLIC_NS is None:
        import statham.schema.elements as E

        ns = {k: getattr(E, k) for k in E.__all__} if hasattr(E, "__all__") else {}
        for k in (
            "AllOf AnyOf Array Boolean CompositionElement Element Integer Not "
            "Nothing Null Number Object OneOf String"
        ).split():
            ns[k] = getattr(E, k)
        ns["Property"] = Property
        ns["NotPassed"] = NotPassed
        PUBLIC_NS = ns
    return dict(PUBLIC_NS)


def same_classes(a, b):
    """Structural equality of two ObjectMeta classes incl. names (== ignores __name__)."""
    return a == b and a.__name__ == b.__name__


# ---------------------------------------------------------------- oracle
def _has_float(x):
    if isinstance(x, float):
        return True
    if isinstance(x, dict):
        return any(_has_float(v) for v in x.values())
    if isinstance(x, list):
        return any(_has_float(v) for v in x)
    return False


def _tracing():
    if _realize is None:
        return False
    try:
        return bool(is_tracing())
    except Exception:
        return False


def oracle(schema, v, waive_default=True):
    """ref6 verdict; in a plain interpreter (replay of witnesses and
    counterexamples) ALSO cross-checked against jsonschema.Draft6Validator.
    A disagreement between the two reference validators is a HarnessError."""
    r = ref6(schema, v, None, waive_default)
    if not _tracing():
        strict = ref6(schema, v, None, False)
        if not _has_float(v) and not _has_float(schema):
            import jsonschema

            try:
                jsonschema.Draft6Validator.check_schema(schema)
            except Exception as exc:
                raise HarnessError(f"template instance is not metaschema-valid: {schema!r}: {exc}")
            js = jsonschema.Draft6Validator(schema).is_valid(v)
            if js != strict:
                raise HarnessError(f"ref6 ({strict}) and jsonschema ({js}) disagree on {schema!r} / {v!r}")
    return r
