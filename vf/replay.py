"""Concrete replay of a harness call in a plain interpreter: NO CrossHair, NO stubs.

usage: python -m vf.replay <gen_dir> <gen_module> <call-expression>
prints one JSON line: {"outcome": "true"|"false"|"raise", "detail": ...}
"""
import importlib
import json
import sys


def main():
    gen_dir, modname, call = sys.argv[1:4]
    sys.path.insert(0, gen_dir)
    sys.setrecursionlimit(5000)
    import warnings

    warnings.simplefilter("ignore")
    mod = importlib.import_module(modname)
    ns = dict(vars(mod))
    ns.setdefault("float", float)
    import os

    funcs = set()
    if os.environ.get("VF_TRACE"):

        def prof(frame, event, arg):
            if event == "call":
                fn = frame.f_code.co_filename
                if fn.startswith("/repo/statham/"):
                    funcs.add(fn[len("/repo/"):-3].replace("/", ".") + ":" + frame.f_code.co_qualname)

        sys.setprofile(prof)
    import io
    import contextlib

    buf = io.StringIO()
    try:
        with contextlib.redirect_stdout(buf):
            r = eval(call, ns)  # noqa: S307
        sys.setprofile(None)
        said = buf.getvalue().strip()
        out = {"outcome": "true" if r else "false", "detail": (repr(r) + ((" | " + said[-600:]) if said else ""))[:900], "functions": sorted(funcs)}
    except BaseException as exc:  # noqa
        sys.setprofile(None)
        import traceback

        name = type(exc).__name__
        out = {
            "outcome": "inconclusive" if name == "Inconclusive" else "harness-error" if name in ("HarnessError", "NameError", "ImportError", "SyntaxError") else "raise",
            "detail": f"{name}: {exc}"[:500],
            "traceback": traceback.format_exc()[-1500:],
        }
    print("VFREPLAY " + json.dumps(out))


if __name__ == "__main__":
    main()
