"""C18 - an element's repr is the expression that rebuilds it (E1)."""
from typing import List

from vf.harness import H, mk

EXPLANATION = (
    "Exhaustive part (solver): for every element class and property wrapper, with keyword presence flags and literal holes symbolic, "
    "custom_repr_args(e).apply(type(e)) rebuilds an element equal to e, and the keyword set shown equals the set of keywords whose "
    "value differs (type-aware) from the constructor default. Text part: eval(repr(e)) in a namespace of the public element classes "
    "equals e, decided on the realised repr text of each explored path (exhaustive over flags only; can only refute for holes)."
)
ASSUMPTIONS = ["repr() of Python literals is CPython's (trusted)", "text part is decided on realised text per path"]
FUNCTIONS = ["statham.schema.helpers:custom_repr_args", "statham.schema.helpers:Args.__repr__", "statham.schema.elements.base:Element.__repr__",
             "statham.schema.property:_Property.__repr__"]


def _typed_eq(a, b):
    from vf.common import jeq, NotPassed, Element, _Property

    if isinstance(a, NotPassed) or isinstance(b, NotPassed):
        return isinstance(a, NotPassed) and isinstance(b, NotPassed)
    if isinstance(a, (Element, _Property)) or isinstance(b, (Element, _Property)):
        return a is b or (type(a) is type(b) and a == b)
    if isinstance(a, (dict, list)) and any(isinstance(x, (Element, _Property)) for x in (a.values() if isinstance(a, dict) else a)):
        return a == b
    return jeq(a, b)


def args_ok(e):
    """custom_repr_args rebuilds e; shown keywords == keywords differing from the default"""
    import inspect
    from vf.common import NotPassed
    from statham.schema.helpers import custom_repr_args

    ra = custom_repr_args(e)
    rebuilt = ra.apply(type(e))
    if not (rebuilt == e and e == rebuilt):
        return False
    params = list(inspect.signature(type(e).__init__).parameters.values())[1:]
    for p in params:
        if p.kind != p.KEYWORD_ONLY:
            continue
        val = getattr(e, p.name, None)
        differs = not _typed_eq(val, p.default)
        if differs != (p.name in ra.kwargs):
            return False
        if differs and not _typed_eq(ra.kwargs[p.name], val):
            return False
    return True


def text_ok(e, extra_ns=None):
    from vf.common import public_ns, realize

    ns = public_ns()
    if extra_ns:
        ns.update(extra_ns)
    text = realize(repr(e))
    try:
        back = eval(text, ns)  # noqa: S307
    except Exception:  # noqa: the repr does not evaluate
        return False
    return back == e and e == back and type(back) is type(e)


def prop_ok(p, name):
    """a property wrapper inside an owner: repr(owner) rebuilds an equal owner with an equal property"""
    from vf.common import Element, public_ns, realize

    owner = Element(properties={name: p})
    try:
        back = eval(realize(repr(owner)), public_ns())  # noqa: S307
    except Exception:  # noqa
        return False
    if not (back == owner):
        return False
    q = back.properties[name]
    return q == p and q.required == p.required and q.source == p.source and q.name == p.name


LIT = "Union[int, bool, str, None, List[Union[int, bool]], Dict[str, Union[int, bool]]]"
LITPRE = ["not isinstance(c, str) or len(c) <= 2", "not isinstance(c, list) or len(c) <= 2", "not isinstance(c, dict) or (len(c) <= 1 and all(k in ('a', 'b') for k in c))"]

# name: (args, pre, element expr)
ELEMS = {
    "element_numeric": ("f1: bool, f2: bool, f3: bool, f4: bool, f5: bool, a: int, b: int", [],
                        "Element(**dict(([('minimum', a)] if f1 else []) + ([('maximum', b)] if f2 else []) + ([('exclusiveMinimum', a)] if f3 else []) + ([('exclusiveMaximum', b)] if f4 else []) + ([('multipleOf', 1 + abs(a))] if f5 else [])))"),
    "element_string": ("f1: bool, f2: bool, f3: bool, f4: bool, n: int, s: str", ["len(s) <= 2"],
                       "Element(**dict(([('minLength', n)] if f1 else []) + ([('maxLength', n)] if f2 else []) + ([('pattern', s)] if f3 else []) + ([('format', s)] if f4 else []) + [('description', s)]))"),
    "element_array": ("f1: bool, f2: bool, f3: bool, u: bool, ai: bool, n: int", [],
                      "Element(**dict(([('items', Integer(minimum=n))] if f1 else []) + ([('minItems', n)] if f2 else []) + ([('contains', Element(const=n))] if f3 else []) + [('uniqueItems', u), ('additionalItems', ai), ('maxItems', n)]))"),
    "element_tuple": ("ai: bool, n: int", [], "Element(items=[Integer(), String(maxLength=n)], additionalItems=(Integer(maximum=n) if ai else False))"),
    "element_object": ("f1: bool, f2: bool, f3: bool, f4: bool, ap: bool, n: int", [],
                       "Element(**dict(([('required', ['a', 'b'])] if f1 else []) + ([('patternProperties', {'^a': Integer(minimum=n)})] if f2 else []) + ([('propertyNames', String(maxLength=n))] if f3 else []) + ([('dependencies', {'a': ['b'], 'b': Element(minProperties=n)})] if f4 else []) + [('additionalProperties', ap), ('minProperties', n)]))"),
    "element_addl_elem": ("ap: bool, n: int", [], "Element(additionalProperties=(Integer(minimum=n) if ap else Nothing()), maxProperties=n)"),
    "element_props": ("r: bool, src: bool, n: int", [], "Element(properties={'a': Property(Integer(minimum=n), required=r), 'b_': Property(String(), source=('b' if src else None))})"),
    "element_literals": (f"c: {LIT}, f1: bool, f2: bool", LITPRE, "Element(**dict(([('const', c)] if f1 else []) + ([('enum', [c, 1, True])] if f2 else []) + [('default', c)]))"),
    "integer": ("f1: bool, f2: bool, a: int, d: Union[int, bool, None]", [], "Integer(**dict(([('minimum', a)] if f1 else []) + ([('default', d)] if f2 else [])))"),
    "number": ("f1: bool, a: int, d: Union[int, bool, None]", [], "Number(**dict(([('exclusiveMaximum', a)] if f1 else []) + [('default', d), ('multipleOf', 0.5)]))"),
    "string": ("f1: bool, f2: bool, n: int, s: str", ["len(s) <= 3"], "String(**dict(([('maxLength', n)] if f1 else []) + ([('pattern', s)] if f2 else []) + [('default', s)]))"),
    "boolean_null": ("f1: bool, b: bool", [], "(Boolean(default=b) if f1 else Null(const=None, default=None))"),
    "array": ("f1: bool, f2: bool, u: bool, n: int", [], "Array(Integer(minimum=n), **dict(([('minItems', n)] if f1 else []) + ([('default', [n])] if f2 else []) + [('uniqueItems', u)]))"),
    "array_tuple": ("ai: bool, n: int", [], "Array([Integer(), Array(String(maxLength=n))], additionalItems=(ai if n % 2 else Integer(maximum=n)))"),
    "anyof": ("f1: bool, n: int, d: Union[int, bool, None, str]", ["not isinstance(d, str) or len(d) <= 1"], "AnyOf(Integer(minimum=n), String(), **({'default': d} if f1 else {}))"),
    "oneof_allof": ("f1: bool, n: int", [], "(OneOf(Integer(minimum=n), Element(), Nothing()) if f1 else AllOf(Element(maximum=n), Not(Null())))"),
    "not": ("f1: bool, n: int", [], "Not(Integer(minimum=n), **({'default': n} if f1 else {}))"),
    "nothing": ("f1: bool", [], "(Nothing() if f1 else Element())"),
    "shared_in_tuple": ("n: int", [], "(lambda s: Array([s, s, Array(s)]))(String(minLength=n))"),
    "shared_in_composition": ("n: int", [], "(lambda s: AnyOf(s, Array(s), Not(s)))(Integer(minimum=n))"),
    "shared_in_properties": ("n: int, r: bool", [], "(lambda s: Element(properties={'a': Property(s, required=r), 'b': Property(s)}, additionalProperties=s, contains=s))(Integer(maximum=n))"),
    "element_addl_items_shapes": ("f1: bool, f2: bool, ai: int", ["0 <= ai < 3"], "Element(**dict(([('items', Integer())] if f1 else []) + ([('items', [Integer(), String()])] if f2 else []) + [('additionalItems', (True, False, Integer(minimum=1))[ai])]))"),
    "array_addl_items_single": ("ai: int, u: bool", ["0 <= ai < 4"], "Array(String(), additionalItems=(True, False, Integer(minimum=1), Nothing())[ai], uniqueItems=u)"),
    "element_addl_props_shapes": ("f1: bool, f2: bool, ap: int", ["0 <= ap < 4"], "Element(**dict(([('properties', {'a': Property(Integer())})] if f1 else []) + ([('patternProperties', {'^a': String()})] if f2 else []) + [('additionalProperties', (True, False, Integer(minimum=1), Nothing())[ap])]))"),
    "falsy_positional": ("ai: int, r: bool, n: int", ["0 <= ai < 8"], "(lambda f: (Not(f), Array(f, maxItems=n), Array([f, Integer()]), Element(properties={'x': Property(f, required=r)}, items=f, contains=f), Array(Array([])), AnyOf(f, f), Not(Array([]), default=n), Array([], additionalItems=f))[concretize_int(ai, 0, 7)])(Nothing())"),
    "nested": ("n: int, u: bool", [], "Array(AnyOf(Array(Integer(maximum=n), uniqueItems=u), Element(properties={'x': Property(Not(String(minLength=n)), required=u)})))"),
}


def harnesses(ctx) -> List[H]:
    hs: List[H] = []
    for name, (args, pre, expr) in ELEMS.items():
        hs.append(mk(f"c18_args_{name}", args, pre, f"return args_ok({expr})", timeout=120, group="args",
                     tier="quick", covers=expr))
        hs.append(mk(f"c18_text_{name}", args, pre, f"return text_ok({expr})", timeout=30, group="text", expect="unknown",
                     tier="quick", covers="eval(repr(e)) == e on realised text (refute-only for the integer / string holes)"))
        # holes fixed, flags symbolic: the repr text is concrete, so every path is exhaustible
        flag_args = ", ".join(a.strip() for a in args.split(",") if a.strip().endswith(": bool") or a.strip().startswith(("ai: int", "ap: int", "src: int")))
        fixed = "n = 3; a = 1; b = 2; s = 'ab'; c = [1, True]; d = 0; m = 2"
        if flag_args:
            hs.append(mk(f"c18_textflags_{name}", flag_args, [p for p in pre if any(v in p for v in ("ai", "ap"))],
                         f"{fixed}\nreturn text_ok({expr})", timeout=120, group="text-flags", tier="quick",
                         covers="eval(repr(e)) == e for every combination of presence flags (holes fixed: n=3, a=1, b=2, s='ab', c=[1, True], d=0)"))
    for name in ("integer", "string", "array", "anyof", "not", "element_props", "element_object", "nested"):
        args, pre, expr = ELEMS[name]
        flag_args = ", ".join(a.strip() for a in args.split(",") if a.strip().endswith(": bool"))
        hs.append(mk(f"c18_after_use_{name}", flag_args or "z: bool", [], f"n = 3; a = 1; b = 2; s = 'ab'; c = [1, True]; d = 0; m = 2; src = 1\nreturn after_use_ok({expr})", timeout=120, group="after-use",
                     covers="eval(repr(e)) == e after e has validated eight values (holes fixed, flags symbolic)"))
    # property wrappers
    hs.append(mk("c18_property_in_owner", "r: bool, src: int, n: int", ["0 <= src <= 2"],
                 "return prop_ok(Property(Integer(minimum=n), required=r, source=(None, 'a', 'other')[src]), 'a')", timeout=60, group="property", expect="unknown"))
    hs.append(mk("c18_property_unbound", "r: bool, src: bool, n: int", [],
                 "return text_ok_prop(Property(Integer(minimum=n), required=r, source=('s' if src else None)))", timeout=60, group="property", expect="unknown"))
    # model classes inside elements
    hs.append(mk("c18_with_class", "n: int, r: bool", [],
                 "return with_class_ok(n, r)", timeout=60, group="text", expect="unknown"))
    hs.append(mk("c18_shared_wrapper", "r: bool, same_name: bool", [], "return shared_wrapper_ok(r, 3, same_name)", timeout=60, group="property",
                 covers="one Property wrapper used by two owners under different / equal names"))
    hs.append(mk("c18_nasty_text", "i: int, w: int", [f"0 <= i < {len(NASTY_TEXT)}", "0 <= w < 4"], f"return nasty_text_ok(concretize_int(i, 0, {len(NASTY_TEXT) - 1}), concretize_int(w, 0, 3))", timeout=120, group="text",
                 covers="18 strings with backslashes, quotes, control characters, format characters x 4 places a string can sit in (default/pattern, const/enum/description, format/source/required/dependencies, nested defaults)"))
    hs.append(mk("c18__reach", "f1: bool, n: int", [], "return not (f1 and args_ok(Integer(minimum=n)))", kind="witness", timeout=20))
    return hs


def shared_wrapper_ok(r, n, same_name):
    """one Property wrapper placed in two owners (under different or equal names): both owners' reprs rebuild them"""
    from vf.common import Element, Property, String

    p = Property(String(minLength=n), required=r)
    a = Element(properties={"name": p})
    b = Element(properties={("name" if same_name else "title"): p}, maxProperties=n)
    return text_ok(a) and text_ok(b) and args_ok(a) and args_ok(b)


def after_use_ok(e):
    """repr round trip of an element that has already validated values (accepted and rejected)"""
    from vf.common import accepts

    for v in (0, "x", None, [1, "a"], {"a": 1}, {}, [], True):
        accepts(e, v)
    return text_ok(e) and args_ok(e)


NASTY_TEXT = ["\\", "a\\", "\\\\", "C:\\temp\\", "\\n\n", "\\d+\r", "\x00\\", "'", '"', "\\'", "'\\", "\n", "\t\\t", "{}", "%s\\", "\u2028\\", "r'x'", "\\N{DASH}"]


def nasty_text_ok(i, where):
    """string literals with backslashes / quotes / control characters in every place a string can sit in a repr"""
    from vf.common import Element, String, Property, Array

    t = NASTY_TEXT[i]
    if where == 0:
        e = String(default=t, pattern=t if t.isprintable() and "\\" not in t and "{" not in t else "a")
    elif where == 1:
        e = Element(const=t, enum=[t, [t], {t: t}], description=t)
    elif where == 2:
        e = Element(properties={"p": Property(String(format=t), source=t or "p")}, required=[t], dependencies={t: [t]})
    else:
        e = Array([String(default=t)], additionalItems=Element(default={"k": [t]}), default=[t])
    return text_ok(e) and args_ok(e)


def text_ok_prop(p):
    from vf.common import public_ns, realize

    try:
        back = eval(realize(repr(p)), public_ns())  # noqa: S307
    except Exception:  # noqa
        return False
    return back == p and back.required == p.required and back.source == p.source


def with_class_ok(n, r):
    from vf.common import Object, Property, Integer, Array, Element

    M = Object.inline("M", properties={"a": Property(Integer(minimum=n), required=r)})
    e = Element(items=Array(M), additionalProperties=M, properties={"m": Property(M)})
    return args_ok(e) and text_ok(e, {"M": M})


DEMOS = {}
