"""C03 - JSON Schema serialization preserves the meaning of any element tree (E1)."""
from typing import List

from vf.harness import H, mk

EXPLANATION = (
    "Element trees are built inside the traced function (DSL: renamed properties, explicit/class-level required, inheritance, shared "
    "classes, caller-supplied definitions; plus parsed templates) with symbolic keyword holes. serialize_json's result must contain "
    "only JSON types, validate against the Draft-6 metaschema (ref6 executing the metaschema), have every $ref resolve inside the "
    "document, and - decided by the solver for all values in the shape - accept exactly the values the tree accepts (the document "
    "is dereferenced by a local-pointer resolver and re-parsed by statham's own parser so that C01-level deviations cancel)."
)
ASSUMPTIONS = ["Draft-6 metaschema taken from the jsonschema package", "deref() (vf/ref6.py) resolves local JSON pointers only"]
FUNCTIONS = ["statham.serializers.json:serialize_json", "statham.serializers.json:_serialize_element", "statham.serializers.json:_serialize_recursive",
             "statham.serializers.json:_from_definitions", "statham.serializers.orderer:get_object_classes", "statham.serializers.orderer:get_children"]

try:
    import jsonschema as _js

    META6 = _js.Draft6Validator.META_SCHEMA
except Exception:  # pragma: no cover
    META6 = True


def refs_resolve(doc, node=None, top=True):
    from vf.common import resolve

    if top:
        node = doc
    if isinstance(node, dict):
        if "$ref" in node:
            try:
                resolve(doc, node["$ref"])
            except Exception:
                return False
            return True
        return all(refs_resolve(doc, x, False) for x in node.values())
    if isinstance(node, list):
        return all(refs_resolve(doc, x, False) for x in node)
    return True


def ser_ok(make, v, defs=None, check_meta=True):
    from vf.common import serialize_json, is_json, ref6, deref, parse_element, accepts, jcopy

    E = make()
    definitions = defs(E) if defs else None
    doc = serialize_json(E, definitions=definitions)
    if not is_json(doc):
        return False
    if not refs_resolve(doc):
        return False
    if check_meta and not ref6(META6, doc, META6):
        return False
    E2 = parse_element(deref(doc))
    return accepts(E, jcopy(v)) == accepts(E2, jcopy(v))


def ser_sequence_ok(make, v, defs_list):
    """serialize_json called several times on the SAME tree with different `definitions`: every document is right"""
    from vf.common import serialize_json, is_json, ref6, deref, parse_element, accepts, jcopy

    E = make()
    want = accepts(E, jcopy(v))
    for defs in defs_list:
        doc = serialize_json(E, definitions=(defs(E) if defs else None))
        if not is_json(doc) or not refs_resolve(doc) or not ref6(META6, doc, META6):
            return False
        if accepts(parse_element(deref(doc)), jcopy(v)) != want:
            return False
    return True


def ser_reach(make, v, want, defs=None):
    from vf.common import accepts, jcopy

    return accepts(make(), jcopy(v)) == want


def _M(m):
    from vf.common import Object, Property, Integer

    return Object.inline("M", properties={"a": Property(Integer(minimum=m), required=True)})


def _named(name, m):
    from vf.common import Object, Property, Integer

    return Object.inline(name, properties={"a": Property(Integer(minimum=m), required=True)})


def _sub(P):
    class Derived(P):  # type: ignore
        pass

    return Derived


def _child(m):
    from vf.common import Object, Property, Integer, Element

    P = Object.inline("P", properties={"a": Property(Integer(minimum=m), required=True)}, required=["b"], additionalProperties=Integer())

    class C(P):  # type: ignore
        ab = Property(Integer(maximum=m))

    return C


DV = "Dict[str, int]"
DPRE = ["len(v) <= 2", "all(k in ('a', 'b', 'a_', 'ab', 'x') for k in v)"]
NV = "Dict[str, Dict[str, int]]"
NPRE = ["len(v) <= 2", "all(k in ('x', 'y') for k in v)", "all(len(d) <= 1 and all(k in ('a', 'b') for k in d) for d in v.values())"]

TEMPLATES = {
    # name: (hole args, make expr, value type, pre, defs expr or None, tier)
    "renamed_required": ("m: int, rq: bool", 'Element(properties={"a_": Property(Integer(minimum=m), source="a", required=rq)}, required=["b"])', DV, DPRE, None, "quick"),
    "renamed_only": ("m: int, rq: bool", 'Element(properties={"a_": Property(Integer(minimum=m), source="a", required=rq), "b": Property(Element())}, additionalProperties=False)', DV, DPRE, None, "quick"),
    "explicit_required_only": ("m: int", 'Element(required=["a"], maxProperties=m)', DV, DPRE + ["m >= 0"], None, "thorough"),
    "class_required": ("m: int", 'Object.inline("M", properties={"a": Property(Integer(minimum=m))}, required=["b"])', DV, DPRE, None, "quick"),
    "class_required_default": ("m: int, d: int", 'Object.inline("M", properties={"a": Property(Integer(minimum=m, default=d), required=True), "b_": Property(Integer(), source="b", required=True)})', DV, DPRE, None, "quick"),
    "inherited": ("m: int", "_child(m)", DV, DPRE, None, "quick"),
    "shared_class": ("m: int", 'Element(properties={"x": Property(_M(m)), "y": Property(_M(m), required=True)})', NV, NPRE, None, "quick"),
    "shared_same_object": ("m: int", '(lambda M: Element(properties={"x": Property(M)}, additionalProperties=M))(_M(m))', NV, NPRE, None, "thorough"),
    "same_shape_different_names": ("m: int", 'Element(properties={"x": Property(_M(m)), "y": Property(_named("N", m), required=True)})', NV, NPRE, None, "quick"),
    "subclass_next_to_base": ("m: int", '(lambda P: Element(properties={"x": Property(P), "y": Property(_sub(P))}))(_M(m))', NV, NPRE, None, "quick"),
    "array_of_class": ("m: int", "Array(_M(m), minItems=1)", "List[Dict[str, int]]", ["len(v) <= 2", "all(len(d) <= 1 and all(k in ('a', 'b') for k in d) for d in v)"], None, "quick"),
    "tuple_items": ("m: int", "Array([Integer(minimum=m), _M(m)], additionalItems=False)", "List[Union[int, Dict[str, int]]]", ["len(v) <= 3", "all((not isinstance(d, dict)) or (len(d) <= 1 and all(k in ('a', 'b') for k in d)) for d in v)"], None, "thorough"),
    "composition": ("m: int", 'OneOf(_M(m), Object.inline("N", properties={"b": Property(Integer(), required=True)}), Integer(maximum=m))', "Union[int, Dict[str, int]]", ["not isinstance(v, dict) or (len(v) <= 2 and all(k in ('a', 'b') for k in v))"], None, "quick"),
    "nested_oneof": ("m: int", "OneOf(OneOf(Integer(), Number()), Element(minimum=m))", "Union[int, str, bool]", ["not isinstance(v, str) or len(v) <= 1"], None, "quick"),
    "nested_anyof_allof": ("m: int", "AnyOf(AnyOf(Integer(minimum=m), String()), AllOf(AllOf(Element(maximum=m), Integer()), Element(multipleOf=2)))", "Union[int, str, bool]", ["not isinstance(v, str) or len(v) <= 1"], None, "quick"),
    "parsed_nested_oneof": ("m: int", 'parse_s({"oneOf": [{"oneOf": [{"type": "integer"}, {"type": "number"}]}, {"minimum": m}, {"oneOf": [{"type": "string"}]}]})', "Union[int, str, bool]", ["not isinstance(v, str) or len(v) <= 1"], None, "quick"),
    "not_allof": ("m: int", "AllOf(Not(Integer(minimum=m)), Element(required=['a']), AnyOf(Integer(), Element(minProperties=1)))", "Union[int, Dict[str, int]]", ["not isinstance(v, dict) or (len(v) <= 2 and all(k in ('a', 'b') for k in v))"], None, "thorough"),
    "definitions_leaf": ("m: int", 'Element(properties={"a": Property(Integer(minimum=m)), "b": Property(Integer(minimum=m), required=True)}, additionalProperties=Integer(maximum=m))', DV, DPRE, 'lambda E: {"D": Integer(minimum=m)}', "quick"),
    "definitions_inner": ("m: int", 'Element(properties={"x": Property(Array(Integer(minimum=m)))}, additionalProperties=Array(Integer(minimum=m)))', "Dict[str, List[int]]", ["len(v) <= 2", "all(k in ('x', 'y') for k in v)", "all(len(l) <= 2 for l in v.values())"], 'lambda E: {"Arr": E.properties["x"].element, "I": E.properties["x"].element.items}', "quick"),
    "definitions_class": ("m: int", 'Element(properties={"x": Property(_M(m))})', NV, NPRE, 'lambda E: {"Mdef": E.properties["x"].element}', "thorough"),
    "definitions_root": ("m: int", "Integer(minimum=m)", "Union[int, str]", ["not isinstance(v, str) or len(v) <= 1"], 'lambda E: {"D": E}', "thorough"),
    "enum_lookalikes": ("c1: Union[int, bool], c2: Union[int, bool]", 'Element(enum=[c1, c2, "a", [c1], [c2], {"k": c1}, {"k": c2}])', "Union[int, bool, str, List[Union[int, bool]], Dict[str, Union[int, bool]]]",
                        ["not isinstance(v, str) or len(v) <= 1", "not isinstance(v, list) or len(v) <= 1", "not isinstance(v, dict) or (len(v) <= 1 and all(k in ('k', 'j') for k in v))"], None, "quick"),
    "const_lookalikes": ("c1: Union[int, bool]", 'Element(properties={"a": Property(Element(const=[c1, {"k": c1}])), "b": Property(Integer(enum=[c1, 0, 1, 2]))}, default={"a": [c1]})', "Dict[str, Union[int, bool, List[Union[int, bool]]]]",
                         ["len(v) <= 1", "all(k in ('a', 'b') for k in v)", "all((not isinstance(x, list)) or len(x) <= 1 for x in v.values())"], None, "quick"),
    "parsed_enum_in_definitions": ("c1: Union[int, bool], c2: Union[int, bool]", 'parse_s({"properties": {"e": {"enum": [c1, c2, [c2, c1]]}}, "additionalProperties": {"const": c2}})', "Dict[str, Union[int, bool, List[Union[int, bool]]]]",
                                   ["len(v) <= 1", "all(k in ('e', 'b') for k in v)", "all((not isinstance(x, list)) or len(x) <= 2 for x in v.values())"], None, "quick"),
    "pattern_deps": ("m: int", 'Element(patternProperties={"^a": Integer(maximum=m)}, dependencies={"a": ["b"], "b": Element(minProperties=2)}, propertyNames=String(maxLength=2))', DV, DPRE, None, "quick"),
    "bool_additional": ("f: bool", 'Element(properties={"a": Property(Integer())}, additionalProperties=f, additionalItems=f, items=[Integer()])', "Union[Dict[str, int], List[int]]", ["not isinstance(v, dict) or (len(v) <= 2 and all(k in ('a', 'b') for k in v))", "not isinstance(v, list) or len(v) <= 2"], None, "quick"),
    "nothing": ("m: int", 'Element(properties={"a": Property(Nothing())}, additionalProperties=Integer(minimum=m))', DV, DPRE, None, "thorough"),
    "parsed_typelist": ("m: int", 'parse_s({"type": ["integer", "string"], "minimum": m, "anyOf": [{"maximum": 10}, {"maxLength": 1}]})', "Union[int, str, bool]", ["not isinstance(v, str) or len(v) <= 2"], None, "quick"),
    "parsed_object": ("m: int", 'parse_s({"type": "object", "title": "T", "properties": {"a b": {"minimum": m}, "class": {"type": "integer"}}, "required": ["a b", "q"]})', DV, ["len(v) <= 2", "all(k in ('a b', 'class', 'q', 'a_b') for k in v)"], None, "quick"),
}


def harnesses(ctx) -> List[H]:
    hs: List[H] = []
    for name, (hargs, make, vt, pre, defs, tier) in TEMPLATES.items():
        d = f", {defs}" if defs else ""
        body = f"""
def make():
    return {make}
return ser_ok(make, v{d})
"""
        hs.append(mk(f"c03_{name}", f"{hargs}, v: {vt}", pre, body, tier=tier, timeout=120, group="tree", covers=make + (f" ; definitions={defs}" if defs else "")))
        for want in (True, False):
            body = f"""
def make():
    return {make}
return not ser_reach(make, v, {want})
"""
            hs.append(mk(f"c03_{name}__{'acc' if want else 'rej'}", f"{hargs}, v: {vt}", pre, body, kind="witness", tier="thorough" if tier == "thorough" or not want else "quick", timeout=30, group="tree"))
    # empty tuple `items`: the DSL accepts it, Draft 6 does not (schemaArray has minItems 1): known finding for the metaschema
    # clause only - the meaning of the document must still be preserved
    known_empty = ctx.known("C03-empty-tuple-items")
    hs.append(mk("c03_empty_tuple_items", "m: int, f: bool, v: List[Union[int, bool]]", ["len(v) <= 2"], f"""
def make():
    return Element(properties={{"t": Property(Array([], additionalItems=(Integer(maximum=m) if f else False)))}}, items=[], additionalItems=Integer(minimum=m))
return ser_ok(make, v, None, {not known_empty}) and ser_ok(make, {{"t": v}}, None, {not known_empty})
""", timeout=120, group="tree", covers="empty tuple items next to a restricting additionalItems (typed Array and untyped Element)"))
    hs.append(mk("c03_sequence_definitions", "m: int, v: List[Dict[str, int]]", ["len(v) <= 2", "all(len(d) <= 1 and all(k in ('a', 'b') for k in d) for d in v)"], """
def make():
    return Array(_M(m), maxItems=2)
return ser_sequence_ok(make, v, [lambda E: {"short": Integer(minimum=m)}, None, lambda E: {"short": String()}, lambda E: {"other": Integer(minimum=m)}])
""", timeout=200, group="tree", covers="one tree serialized 4 times with different caller-supplied definitions (state carried between calls)"))
    return hs


def _demo_required_lost():
    from vf.common import Element, Property, Integer, serialize_json

    el = Element(properties={"a": Property(Integer())}, required=["b"])
    return "b" not in serialize_json(el).get("required", [])


def _demo_renamed_key():
    from vf.common import Element, Property, Integer, serialize_json

    el = Element(properties={"a_": Property(Integer(), source="a")})
    return "a" not in serialize_json(el)["properties"]


def _demo_empty_tuple():
    from vf.common import Array, serialize_json, ref6

    return not ref6(META6, serialize_json(Array([], additionalItems=False)), META6)


DEMOS = {"C03-explicit-required-lost": _demo_required_lost, "C03-renamed-key": _demo_renamed_key, "C03-empty-tuple-items": _demo_empty_tuple}
