"""C07 - defaults and object descriptions survive parsing and serialization (E1)."""
from typing import List

from vf.harness import H, mk

EXPLANATION = (
    "The default d is a symbolic JSON value (int/bool/str/None/list/dict, so 0, False, '', [], {} and None are in range) placed on "
    "every schema shape a default can sit on; the parsed element at the expected position must carry exactly d (type-aware "
    "equality), so must serialize_json, no other element of the tree may carry a default, siblings keep their own defaults, and "
    "container defaults are not shared between elements. Descriptions: the class docstring literal emitted by ObjectMeta.python() "
    "on a symbolic description is decoded by a model of Python's triple-quoted-string lexing and must give back the description; "
    "every counterexample is re-checked with the real compiler (exec) in replay."
)
ASSUMPTIONS = [
    "decode_docstring (vf/props/C07.py) models CPython's lexing of one triple-quoted literal; validated against eval() on a corpus at import time in replay mode",
    "exec of generated modules happens on realised text (per-path), reported as inconclusive when no counterexample is found",
]
FUNCTIONS = ["statham.schema.parser:_parse_composition", "statham.schema.parser:_parse_multi_typed", "statham.schema.parser:_parse_literal",
             "statham.schema.parser:_parse_object", "statham.schema.elements.meta:ObjectMeta.python", "statham.serializers.json:_serialize_element"]

DT = "Union[int, bool, str, None, List[int], Dict[str, int]]"
DPRE = [
    "not isinstance(d, str) or len(d) <= 2",
    "not isinstance(d, list) or len(d) <= 2",
    "not isinstance(d, dict) or (len(d) <= 1 and all(k in ('a', 'x') for k in d))",
]


def walk_defaults(el):
    """(path, default) for every element of the tree that carries a default."""
    from vf.common import get_children, NotPassed

    out = []
    seen = []
    for e in [el] + list(get_children(el)):
        if any(e is s for s in seen):
            continue
        seen.append(e)
        dv = getattr(e, "default", NotPassed())
        if not isinstance(dv, NotPassed):
            out.append((e, dv))
    return out


def default_ok(S, d, locate, jlocate, n_defaults=1):
    """parse S (which contains d as a default somewhere); locate(el) -> element that must carry d;
    jlocate(json) -> serialized schema dict that must carry d."""
    from vf.common import parse_s, serialize_json, jeq, NotPassed, jcopy, is_json

    el = parse_s(S)
    target = locate(el)
    got = getattr(target, "default", NotPassed())
    if isinstance(got, NotPassed) or not jeq(got, d):
        return False
    carriers = walk_defaults(el)
    if len(carriers) != n_defaults:
        return False  # moved / duplicated / dropped
    J = serialize_json(el)
    if not is_json(J):
        return False
    node = jlocate(J)
    if not isinstance(node, dict) or "default" not in node or not jeq(node["default"], d):
        return False
    return True


def _first_prop(el):
    return list(el.properties.values())[0].element


SHAPES = {
    # name: (schema expr, locate expr, jlocate expr, number of defaults in tree)
    "typed_int": ('{"type": "integer", "default": d}', "lambda e: e", "lambda j: j", 1),
    "typed_str": ('{"type": "string", "default": d}', "lambda e: e", "lambda j: j", 1),
    "typed_arr": ('{"type": "array", "items": {"type": "integer"}, "default": d}', "lambda e: e", "lambda j: j", 1),
    "untyped": ('{"default": d, "minimum": 3}', "lambda e: e", "lambda j: j", 1),
    "typelist1": ('{"type": ["integer"], "default": d}', "lambda e: e", "lambda j: j", 1),
    "typelist2": ('{"type": ["integer", "null"], "default": d}', "lambda e: e", "lambda j: j", 1),
    "typelist3": ('{"type": ["string", "array", "boolean"], "default": d}', "lambda e: e", "lambda j: j", 1),
    "anyof": ('{"anyOf": [{"type": "integer"}, {"type": "string"}], "default": d}', "lambda e: e", "lambda j: j", 1),
    "oneof": ('{"oneOf": [{"minimum": 1}, {"type": "null"}], "default": d}', "lambda e: e", "lambda j: j", 1),
    "allof": ('{"allOf": [{"minimum": 1}, {"maximum": 5}], "default": d}', "lambda e: e", "lambda j: j", 1),
    "allof_single": ('{"allOf": [{"minimum": 1}], "default": d}', "lambda e: e", "lambda j: j", 1),
    "trivial_allof": ('{"allOf": [{}], "default": d}', "lambda e: e", "lambda j: j", 1),
    "trivial_anyof": ('{"anyOf": [True], "default": d}', "lambda e: e", "lambda j: j", 1),
    "trivial_oneof_allof": ('{"oneOf": [{}], "allOf": [True, {}], "default": d}', "lambda e: e", "lambda j: j", 1),
    "single_branch_simple_type": ('{"allOf": [{"type": "boolean"}], "default": d}', "lambda e: e", "lambda j: j", 1),
    "not": ('{"not": {"type": "null"}, "default": d}', "lambda e: e", "lambda j: j", 1),
    "typed_anyof": ('{"type": "integer", "anyOf": [{"minimum": 1}, {"maximum": -1}], "default": d}', "lambda e: e", "lambda j: j", 1),
    "two_comp": ('{"anyOf": [{"minimum": 1}, {"maximum": -1}], "not": {"const": 0}, "default": d}', "lambda e: e", "lambda j: j", 1),
    "object_class": ('{"type": "object", "title": "T", "properties": {"p": {"type": "integer"}}, "default": d}', "lambda e: e", "lambda j: j", 1),
    "object_comp": ('{"type": "object", "title": "T", "anyOf": [{"required": ["a"]}, {"required": ["x"]}], "default": d}', "lambda e: e", "lambda j: j", 1),
    "property": ('{"type": "object", "title": "T", "properties": {"p": {"type": "integer", "default": d}}}', "_first_prop", 'lambda j: j["properties"]["p"]', 1),
    "property_untyped": ('{"properties": {"p q": {"default": d}}}', "_first_prop", 'lambda j: j["properties"]["p q"]', 1),
    "property_comp": ('{"type": "object", "title": "T", "properties": {"p": {"anyOf": [{"type": "integer"}, {"type": "null"}], "default": d}}}', "_first_prop", 'lambda j: j["properties"]["p"]', 1),
    "property_typelist": ('{"type": "object", "title": "T", "properties": {"p": {"type": ["integer", "string"], "default": d}}}', "_first_prop", 'lambda j: j["properties"]["p"]', 1),
    "item": ('{"type": "array", "items": {"type": "integer", "default": d}}', "lambda e: e.items", 'lambda j: j["items"]', 1),
    "addl_props": ('{"additionalProperties": {"type": ["integer", "null"], "default": d}}', "lambda e: e.additionalProperties", 'lambda j: j["additionalProperties"]', 1),
    "in_anyof_branch": ('{"anyOf": [{"type": "integer", "default": d}, {"type": "string"}]}', "lambda e: e.elements[0]", 'lambda j: j["anyOf"][0]', 1),
}


def siblings_trivial_ok(d1, d2):
    """two properties, each a default next to an all-trivial composition, plus bare siblings of the same
    kinds: every default stays on its own element, the bare ones get none, nothing is shared"""
    from vf.common import parse_s, jeq, NotPassed

    S = {"type": "object", "title": "T", "properties": {
        "p": {"allOf": [{}], "default": d1},
        "q": {"anyOf": [True], "default": d2},
        "r": {"allOf": [{}]},
        "b1": {"allOf": [{"type": "boolean"}], "default": d1},
        "b2": {"type": "boolean"},
        "n1": {"anyOf": [{"type": "null"}], "default": d2},
        "n2": {"type": "null"}}}
    el = parse_s(S)
    g = lambda k: el.properties[k].element
    for k, d in (("p", d1), ("q", d2), ("b1", d1), ("n1", d2)):
        if isinstance(g(k).default, NotPassed) or not jeq(g(k).default, d):
            return False
    for k in ("r", "b2", "n2"):
        if not isinstance(g(k).default, NotPassed):
            return False
    # a second, unrelated parse afterwards must not see anything of the first
    again = parse_s({"properties": {"x": {"allOf": [{}]}, "y": {"type": "boolean"}, "z": {"type": "null"}}})
    return all(isinstance(again.properties[k].element.default, NotPassed) for k in ("x", "y", "z"))


def shared_subschema_ok(d, shape):
    """the same dict object appears at two places of the document (shared $ref after materialisation)"""
    from vf.common import parse_element, jeq, NotPassed, serialize_json

    sub = ({"type": ["integer", "null"], "default": d}, {"anyOf": [{"type": "integer"}, {"type": "string"}], "default": d},
           {"type": ["string"], "default": d}, {"type": "object", "title": "Sub", "default": d},
           {"type": "array", "items": {"type": ["boolean", "null"], "default": d}})[shape]
    doc = {"type": "object", "title": "T", "properties": {"p": sub, "q": sub, "r": {"type": "array", "items": sub}}}
    el = parse_element(doc)
    got = [el.properties["p"].element, el.properties["q"].element, el.properties["r"].element.items]
    if shape == 4:
        got = [g.items for g in got]
    for g in got:
        if isinstance(g.default, NotPassed) or not jeq(g.default, d):
            return False
    return True


def siblings_ok(d1, d2):
    """two siblings each keep their own default; container defaults are not shared objects."""
    from vf.common import parse_s, jeq, NotPassed

    S = {"type": "object", "title": "T", "properties": {
        "p": {"type": ["integer", "null"], "default": d1},
        "q": {"anyOf": [{"type": "integer"}, {"type": "string"}], "default": d2},
        "r": {"type": "integer"}}}
    el = parse_s(S)
    p, q, r = (el.properties[k].element for k in ("p", "q", "r"))
    if isinstance(p.default, NotPassed) or isinstance(q.default, NotPassed):
        return False
    if not jeq(p.default, d1) or not jeq(q.default, d2):
        return False
    if not isinstance(r.default, NotPassed) or not isinstance(el.default, NotPassed):
        return False
    if isinstance(p.default, (list, dict)) and p.default is q.default:
        return False
    return len(walk_defaults(el)) == 2


# ------------------------------------------------------------------ docstrings
_SIMPLE = {"\\": "\\", "'": "'", '"': '"', "a": "\a", "b": "\b", "f": "\f", "n": "\n", "r": "\r", "t": "\t", "v": "\v"}


def decode_docstring(text):
    """Model of CPython lexing `<...>:\\n    \"\"\"BODY\"\"\"\\n...` : returns (decoded body, rest after the
    closing quotes) or None when the literal cannot be lexed (unterminated, NUL byte, bad escape)."""
    start = text.find(':\n    """')
    if start < 0:
        return None
    i = start + 9
    n = len(text)
    out = []
    while True:
        if i >= n:
            return None
        if text[i] == '"' and text[i : i + 3] == '"""':
            return "".join(out), text[i + 3 :]
        c = text[i]
        if c == "\\":
            if i + 1 >= n:
                return None
            e = text[i + 1]
            if e == "\n":
                i += 2
                continue
            if e in _SIMPLE:
                out.append(_SIMPLE[e])
                i += 2
                continue
            if e in "01234567":
                j = i + 1
                val = 0
                while j < n and j < i + 4 and text[j] in "01234567":
                    val = val * 8 + int(text[j])
                    j += 1
                if val > 0o377:
                    return None
                out.append(chr(val))
                i = j
                continue
            if e in "xuUN":
                return None  # needs well-formed hex/name; never produced from <=3 symbolic chars unescaped... treat as not-decodable
            out.append("\\")
            out.append(e)
            i += 2
            continue
        if c == "\0":
            return None
        if c == "\r":
            out.append("\n")
            i += 2 if text[i + 1 : i + 2] == "\n" else 1
            continue
        if 0xD800 <= ord(c) <= 0xDFFF:
            return None  # source text cannot be encoded
        out.append(c)
        i += 1


def docstring_ok(desc, via_parser=True):
    """description -> class docstring, character for character."""
    from vf.common import parse_s, Object, _tracing, exec_module, serialize_python

    if via_parser:
        cls = parse_s({"type": "object", "title": "Doc", "description": desc, "properties": {"p": {"type": "integer"}}})
    else:
        cls = Object.inline("Doc", description=desc)
    if cls.description != desc:
        return False
    text = cls.python()
    dec = decode_docstring(text)
    model_ok = dec is not None and dec[0] == desc and dec[1].startswith("\n")
    if not _tracing():
        # replay: the real compiler decides
        try:
            ns = exec_module(serialize_python(cls))
            real_ok = ns["Doc"].__doc__ == desc and ns["Doc"].description == desc
        except Exception:
            real_ok = False
        if real_ok != model_ok:
            from vf.common import HarnessError

            raise HarnessError(f"docstring model ({model_ok}) and compiler ({real_ok}) disagree on {desc!r}")
        return real_ok
    return model_ok


DESC_POOL = ["a\n", " a", "a\n  b\n  c", "\ta", "a\n\n", "  ", "x\ty", "\n a", "a \n b", "First.\n\n    Indented.\n", "é\u2028z", "' in three", "# not a comment", "{braces} %s"]


def docstring_readback_ok(i):
    """emitted docstring is read back (Object.__init_subclass__) as exactly the description - real compiler"""
    from vf.common import parse_s, serialize_python, exec_generated

    desc = DESC_POOL[i]
    cls = parse_s({"type": "object", "title": "Doc", "description": desc, "properties": {"p": {"type": "integer"}}})
    ns = exec_generated(serialize_python(cls))
    if ns is None:
        return False
    return ns["Doc"].__doc__ == desc and ns["Doc"].description == desc and ns["Doc"] == cls


def desc_dedupe_ok(d1, d2):
    """two same-titled, same-shaped object schemas with different descriptions keep their own descriptions"""
    from vf.common import parse_s, serialize_json

    def obj(d):
        return {"type": "object", "title": "Addr", "description": d, "properties": {"n": {"type": "integer"}}}

    root = parse_s({"type": "object", "title": "Root", "properties": {"p": obj(d1), "q": obj(d2)}})
    cp, cq = root.properties["p"].element, root.properties["q"].element
    if cp.description != d1 or cq.description != d2:
        return False
    J = serialize_json(root)
    got = sorted(str(x.get("description")) for x in J.get("definitions", {}).values())
    return got == sorted({d1, d2}) if d1 != d2 else got == [d1]


def desc_json_ok(desc):
    from vf.common import parse_s, serialize_json

    cls = parse_s({"type": "object", "title": "Doc", "description": desc})
    J = serialize_json(cls)
    return cls.description == desc and J.get("description") == desc


def python_default_ok(d, shape):
    """exec the generated module; the class / property default must still be d (realised text)."""
    from vf.common import parse_s, serialize_python, exec_generated, jeq, NotPassed

    if shape == "class":
        S = {"type": "object", "title": "T", "properties": {"p": {"type": "integer"}}, "default": d}
    elif shape == "property":
        S = {"type": "object", "title": "T", "properties": {"p": {"type": ["integer", "null"], "default": d}}}
    else:
        S = {"type": "object", "title": "T", "properties": {"p": {"type": "array", "items": {"anyOf": [{"type": "integer"}, {"type": "string"}], "default": d}}}}
    el = parse_s(S)
    ns = exec_generated(serialize_python(el))
    if ns is None:
        return False
    T = ns["T"]
    if shape == "class":
        got = T.default
    elif shape == "property":
        got = T.properties["p"].element.default
    else:
        got = T.properties["p"].element.items.default
    return (not isinstance(got, NotPassed)) and jeq(got, d) and T == el


LIT_SHAPES = [
    lambda x: {"tags": [{"name": x}]},
    lambda x: [{"n": x}, {"m": {"k": [x]}}],
    lambda x: {"a": {"b": x, "c": []}},
    lambda x: [[{"n": x}], []],
    lambda x: {"a": [[{"k": x}], x, {}], "title": "kept", "_x": {"y": [{"z": None}]}},
    lambda x: x,
]


def labelled_default_ok(shape, pos, x):
    """the command-line path (materialize + title_labeller annotates EVERY dict of the document, also those inside literals):
    nested container defaults come out of main(), parse() and serialize_json() exactly as written"""
    import json
    import os
    import tempfile
    from vf.common import realize, concretize_int, _tracing, jeq, exec_generated, NotPassed

    shape, pos = concretize_int(shape, 0, len(LIT_SHAPES) - 1), concretize_int(pos, 0, 3)
    d = LIT_SHAPES[shape](realize(x))
    if pos == 0:
        doc = {"type": "object", "title": "T", "properties": {"p": {"type": "integer"}}, "default": d}
        loc = lambda T: T.default
        jloc = lambda J: J["default"]
    elif pos == 1:
        doc = {"type": "object", "title": "T", "properties": {"p": {"default": d}}}
        loc = lambda T: T.properties["p"].element.default
        jloc = lambda J: J["properties"]["p"]["default"]
    elif pos == 2:
        doc = {"type": "object", "title": "T", "properties": {"p": {"type": "array", "items": {"type": ["object", "array", "integer", "null"], "title": "It", "default": d}}}}
        loc = lambda T: T.properties["p"].element.items.default
        jloc = lambda J: J["properties"]["p"]["items"]["default"]
    else:
        doc = {"type": "object", "title": "T", "properties": {"q": {"type": "object", "title": "In", "properties": {"r": {"anyOf": [{"type": "integer"}, {}], "default": d}}}}}
        loc = lambda T: T.properties["q"].element.properties["r"].element.default
        jloc = lambda J: J["definitions"]["In"]["properties"]["r"]["default"]

    def go():
        from statham.__main__ import main, parse_input_arg
        from statham.schema.parser import parse
        from statham.serializers.json import serialize_json
        from statham.titles import title_labeller
        from json_ref_dict import materialize, RefDict

        dd = tempfile.mkdtemp(prefix="vf_c07_")
        path = os.path.join(dd, "doc.json")
        try:
            with open(path, "w") as fh:
                json.dump(doc, fh)
            uri = parse_input_arg(path)
            text = main(uri)
            parsed = parse(materialize(RefDict.from_uri(uri), context_labeller=title_labeller()))
        finally:
            try:
                os.remove(path)
                os.rmdir(dd)
            except OSError:
                pass
        T = parsed[0]
        got = loc(T)
        if isinstance(got, NotPassed) or not jeq(got, d):
            return False
        J = serialize_json(T)
        if not jeq(jloc(J), d):
            return False
        ns = exec_generated(text)
        if ns is None:
            return False
        g = loc(ns["T"])
        return (not isinstance(g, NotPassed)) and jeq(g, d)

    if _tracing():
        from crosshair.tracers import NoTracing

        from vf.prelude import real_hash

        with NoTracing(), real_hash():
            return go()
    return go()


DOC_SAFE = "chr(92) not in s and chr(13) not in s and chr(0) not in s and not s.endswith(chr(34)) and chr(34) * 3 not in s and all(not (0xD800 <= ord(c) <= 0xDFFF) for c in s)"


def harnesses(ctx) -> List[H]:
    hs: List[H] = []
    quick = {"typed_int", "untyped", "typelist1", "typelist2", "anyof", "allof", "not", "object_class", "object_comp", "property", "property_comp", "item", "typed_anyof", "trivial_allof", "trivial_anyof", "single_branch_simple_type"}
    for name, (S, loc, jloc, nd) in SHAPES.items():
        body = f"""
return default_ok({S}, d, {loc}, {jloc}, {nd})
"""
        hs.append(mk(f"c07_default_{name}", f"d: {DT}", DPRE, body, tier="quick" if name in quick else "thorough", timeout=60, group="default", covers=S))
    hs.append(mk("c07_default_siblings", f"d1: Union[int, bool, None, List[int]], d2: Union[int, str, None, List[int]]",
                 ["not isinstance(d1, list) or len(d1) <= 1", "not isinstance(d2, list) or len(d2) <= 1", "not isinstance(d2, str) or len(d2) <= 1"],
                 "return siblings_ok(d1, d2)", timeout=60, group="default"))
    hs.append(mk("c07_default_siblings_trivial", f"d1: Union[int, bool, None, List[int]], d2: Union[int, str, None, List[int]]",
                 ["not isinstance(d1, list) or len(d1) <= 1", "not isinstance(d2, list) or len(d2) <= 1", "not isinstance(d2, str) or len(d2) <= 1"],
                 "return siblings_trivial_ok(d1, d2)", timeout=120, group="default",
                 covers="defaults next to all-trivial / single-branch compositions, bare siblings of the same kinds, and a later unrelated parse"))
    hs.append(mk("c07_default_shared_subschema", f"d: {DT}, shape: int", DPRE + ["0 <= shape < 5"], "return shared_subschema_ok(d, concretize_int(shape, 0, 4))", timeout=200, group="default",
                 covers="one sub-schema dict object referenced from three places (type list / composition / one-element type list / object / array items): every occurrence keeps the default"))
    hs.append(mk("c07_default__reach", f"d: {DT}", DPRE,
                 'return not (isinstance(d, list) and default_ok({"type": "integer", "default": d}, d, lambda e: e, lambda j: j, 1))',
                 kind="witness", timeout=30, group="default"))
    for shape in ("class", "property", "item"):
        hs.append(mk(f"c07_python_default_{shape}", f"d: {DT}", DPRE, f"return python_default_ok(d, {shape!r})", timeout=60, group="python",
                     expect="unknown", covers="exec(serialize_python(...)) keeps the default; generated text is realised per path"))
    hs.append(mk("c07_default_labelled_nested", "shape: int, pos: int, x: bool", [f"0 <= shape < {len(LIT_SHAPES)}", "0 <= pos < 4"], "return labelled_default_ok(shape, pos, x)",
                 timeout=200, group="default", covers="command-line path (every dict annotated by the title labeller): nested container defaults (dict in list in dict, list in list, keys named like annotations) at class / property / items / nested-property positions"))
    # descriptions
    excl = ctx.excl("C07-docstring-escape", DOC_SAFE)
    for via in (True, False):
        nm = "parsed" if via else "dsl"
        hs.append(mk(f"c07_docstring_{nm}", "s: str", ["1 <= len(s) <= 3"] + excl, f"return docstring_ok(s, {via})", timeout=120, group="description",
                     tier="quick" if via else "thorough", covers="docstring literal of ObjectMeta.python() decodes to the description"))
    hs.append(mk("c07_docstring_small_alphabet", "s: str", ["1 <= len(s) <= 4", "all(c in (chr(34), chr(39), chr(10), 'a') for c in s)"] + excl,
                 "return docstring_ok(s, True)", timeout=200, tier="thorough", group="description", covers="descriptions up to 4 chars over the alphabet {double quote, single quote, newline, a}"))
    hs.append(mk("c07_docstring__reach", "s: str", ["1 <= len(s) <= 3"] + excl, "return not docstring_ok(s, True)", kind="witness", timeout=30, group="description"))
    hs.append(mk("c07_docstring_readback_pool", "i: int", [f"0 <= i < {len(DESC_POOL)}"], f"return docstring_readback_ok(concretize_int(i, 0, {len(DESC_POOL) - 1}))", timeout=120, group="description",
                 covers="descriptions with leading/trailing whitespace, indentation, tabs, blank lines: generated class reads back exactly the description (exec)"))
    hs.append(mk("c07_description_dedupe", "i: int, j: int", ["0 <= i < 4", "0 <= j < 4"], "pool = ('first', 'second', '', 'First')\nreturn desc_dedupe_ok(pool[concretize_int(i, 0, 3)], pool[concretize_int(j, 0, 3)])", timeout=120, group="description",
                 covers="same title + same shape + different descriptions: both descriptions survive parsing and JSON serialization"))
    hs.append(mk("c07_description_json", "s: str", ["len(s) <= 3"], "return desc_json_ok(s)", timeout=60, group="description"))
    return hs


def _demo_falsy_default():
    from vf.common import parse_s, NotPassed

    a = parse_s({"anyOf": [{"type": "integer"}, {"type": "string"}], "default": 0})
    b = parse_s({"type": ["integer"], "default": 5})
    return isinstance(a.default, NotPassed) or isinstance(b.default, NotPassed)


def _demo_docstring():
    return not (docstring_ok("a\\b", True) and docstring_ok('say "hi"', True))


DEMOS = {"C07-falsy-default": _demo_falsy_default, "C07-docstring-escape": _demo_docstring}
