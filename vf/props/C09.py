"""C09 - code generation and serialization are deterministic across processes (E1 + order oracle E3)."""
import ast
import os
import subprocess
import sys
import tempfile
from typing import List

from vf.harness import H, mk

EXPLANATION = (
    "The string-hash seed is modelled as an ORDER ORACLE: in every statham module the builtin name `set` is replaced by an "
    "insertion-ordered set model whose iteration order is a permutation chosen by symbolic integers (one oracle = one process; the "
    "i-th iteration uses permutation index ka + i*kb). The builtin `hash` is replaced likewise by a salted model (one salt per oracle). For each document, z3 must show that generated Python text, JSON "
    "serialization and class names are equal under two independent oracles. An AST scan of the current /repo/statham sources lists "
    "every set-valued expression and checks that it is reached by the shim (a builtin `set(...)` call / `set.union`) - set literals, "
    "set comprehensions and frozenset, which the shim cannot reach, must be in order-insensitive contexts or the run reports a "
    "harness error. A model counterexample is replayed by running `python -m statham --input <file>` in subprocesses under "
    "PYTHONHASHSEED 0..63; only a reproduced difference is a VIOLATION (the independent-permutation model over-approximates CPython)."
)
ASSUMPTIONS = [
    "dict iteration order is insertion order (language guarantee), so only sets are order sources",
    "id()-based ordering (sets of classes) is also permuted by the oracle",
    "replay searches PYTHONHASHSEED 0..63",
]
FUNCTIONS = ["statham.schema.parser:_parse_composition", "statham.schema.parser:_ParseState.dedupe", "statham.serializers.python:_get_element_imports",
             "statham.serializers.python:serialize_python", "statham.serializers.json:serialize_json", "statham.__main__:main"]

DOCS = {
    "same_title_two_keywords": {"type": "object", "title": "Root", "properties": {"p": {
        "anyOf": [{"type": "object", "title": "A", "properties": {"x": {"type": "integer"}}}],
        "oneOf": [{"type": "object", "title": "A", "properties": {"x": {"type": "string"}}}, {"type": "null"}],
        "allOf": [{"type": "object", "title": "A", "properties": {"x": {"type": "number"}}}]}}},
    "same_title_root_composition": {
        "oneOf": [{"type": "object", "title": "B", "properties": {"y": {"type": "integer"}}}, {"type": "object", "title": "C"}],
        "anyOf": [{"type": "object", "title": "B", "properties": {"y": {"type": "boolean"}}}, {"type": "object", "title": "C", "required": ["q"]}]},
    "type_list_objects": {"type": "object", "title": "Root", "properties": {
        "p": {"type": ["object", "array", "null"], "title": "D", "items": {"type": "object", "title": "D", "properties": {"z": {"type": "integer"}}}},
        "q": {"type": "object", "title": "D", "properties": {"z": {"type": "string"}}}}},
    "definitions": {"type": "object", "title": "Root", "properties": {"a": {"type": "object", "title": "E", "properties": {"v": {"type": "integer"}}}},
                    "definitions": {"one": {"type": "object", "title": "E", "properties": {"v": {"type": "string"}}},
                                    "two": {"type": "object", "title": "E"}, "three": {"allOf": [{"type": "object", "title": "E", "required": ["k"]}], "anyOf": [{"type": "object", "title": "E", "required": ["j"]}]}}},
    "imports_many_kinds": {"type": "object", "title": "Root", "properties": {
        "a": {"type": "array", "items": {"anyOf": [{"type": "integer"}, {"type": "string"}, {"type": "null"}, {"type": "boolean"}, {"type": "number"}]}},
        "b": {"oneOf": [{"not": {"type": "null"}}, False, True], "allOf": [{"minimum": 1}]},
        "c": {"type": "object", "title": "Inner", "additionalProperties": {"type": "array", "items": [{"type": "integer"}], "additionalItems": False}}},
        "required": ["a", "zz", "b"], "dependencies": {"a": ["b", "c"], "b": {"required": ["c", "a"]}}},
    "many_schema_dependencies": {"type": "object", "title": "Root", "dependencies": {
        "d3": {"type": "object", "title": "Dep", "required": ["x"]}, "d1": {"type": "object", "title": "Dep", "required": ["y"]},
        "d2": {"type": "object", "title": "Dep", "required": ["z"]}, "l1": ["d1", "d2"], "d4": {"minProperties": 2}},
        "patternProperties": {"^c": {"type": "object", "title": "Pat"}, "^a": {"type": "object", "title": "Pat", "required": ["q"]}, "^b": {"type": "integer"}}},
    "undeclared_required_and_sets": {"type": "object", "title": "Root", "properties": {"a": {"type": "integer"},
                                     "o": {"type": "object", "title": "Inner", "required": ["k3", "k1", "k2"], "dependencies": {"k1": ["k2", "k3", "k0"]}, "enum": [{"k1": 1}, {"k2": 2}, {"k3": 3}]}},
                                     "required": ["z1", "a", "z2", "z3", "o"], "patternProperties": {"^p": {"type": "integer"}, "^q": {"type": "string"}, "^r": {"type": "null"}},
                                     "definitions": {"d3": {"type": "integer"}, "d1": {"type": "string"}, "d2": {"type": "object", "title": "D2", "required": ["y", "x", "w"]}}},
    "single_branch_defaults": {"type": "object", "title": "Root", "properties": {
        "flag": {"allOf": [{"type": "boolean"}], "default": True}, "nothing": {"anyOf": [{"type": "null"}], "default": None},
        "any": {"allOf": [{}], "default": []}, "s": {"oneOf": [{"type": "string"}], "default": "x"}, "i": {"allOf": [{"type": "integer"}], "default": 0}}},
    "plain_simple_types": {"type": "object", "title": "Plain", "properties": {"a": {"type": "boolean"}, "b": {"type": "null"}, "c": {}, "d": {"type": "string"}, "e": {"type": "integer"},
                           "f": {"allOf": [{}]}, "g": {"type": "array", "items": {"type": "boolean"}}}},
    "unnamed_characters": {"type": "object", "title": "Root", "properties": {"flag\u0001set": {"type": "integer"}, "\ue000": {"type": "string"}, "a\uffffb": {}},
                           "required": ["x\u0002", "flag\u0001set"], "patternProperties": {"\u0003": {"type": "null"}}},
    # same outer title / property names / structure, the nested class titled differently (a cache keyed on class equality confuses them)
    "outer_child": {"type": "object", "title": "Top", "properties": {"o": {"type": "object", "title": "Outer", "properties": {
        "child": {"type": "object", "title": "Child", "properties": {"value": {"type": "integer"}}}}}}},
    "outer_kid": {"type": "object", "title": "Top", "properties": {"o": {"type": "object", "title": "Outer", "properties": {
        "child": {"type": "object", "title": "Kid", "properties": {"value": {"type": "integer"}}}}},
        "c": {"type": "object", "title": "Child", "properties": {"other": {"type": "string"}}}}},
    "outer_kid_root": {"type": "object", "title": "Outer", "properties": {"child": {"type": "object", "title": "Kid", "properties": {"value": {"type": "integer"}}}}},
    "unsupported_message": {"type": "object", "title": "Root", "if": {}, "then": {}, "else": {}},
}


def permute(items, idx):
    n = len(items)
    if n <= 1:
        return items
    if n == 2:
        return [items[1], items[0]] if idx % 2 else items
    if n == 3:
        perms = ((0, 1, 2), (0, 2, 1), (1, 0, 2), (1, 2, 0), (2, 0, 1), (2, 1, 0))
        p = perms[idx % 6]
        return [items[p[0]], items[p[1]], items[p[2]]]
    r = idx % n
    out = items[r:] + items[:r]
    if (idx // n) % 2:
        out = out[::-1]
    return out


HASH_SALT = [0]


def _oracle_hash(x):
    """model of the per-process salted hash of str/bytes (other types hash as usual)"""
    import builtins

    if isinstance(x, (str, bytes)):
        return builtins.hash((HASH_SALT[0], x)) if HASH_SALT[0] else builtins.hash(x)
    return builtins.hash(x)


def shim_all():
    """replace the builtin names `set` and `hash` in every loaded statham module by the oracle models"""
    from vf import prelude

    shim = prelude._SetShim()
    for name, mod in list(sys.modules.items()):
        if name == "statham" or name.startswith("statham."):
            if mod is not None:
                mod.set = shim
                mod.hash = _oracle_hash


def generate(doc):
    from vf.common import parse, serialize_python, serialize_json, jcopy, get_object_classes, SchemaParseError

    try:
        els = parse(jcopy(doc))
    except SchemaParseError as exc:
        return ("parse-error", type(exc).__name__)
    text = serialize_python(*els)
    js = serialize_json(*els)
    names = [c.__name__ for c in get_object_classes(*els)]
    return (text, js, names)


def under_oracle(doc, ka, kb):
    from vf.prelude import OrderedSet

    def hook(items):
        # one oracle = (kb for 2-element sets, ka for larger ones)
        return permute(items, kb if len(items) == 2 else ka)

    OrderedSet.order_hook = hook
    HASH_SALT[0] = 1 + 13 * ka + kb  # one oracle = one hash salt as well
    try:
        return generate(doc)
    finally:
        OrderedSet.order_hook = None
        HASH_SALT[0] = 0


def real_outputs(doc, seeds):
    """python -m statham --input <file> under different hash seeds (the real thing)"""
    import json

    d = tempfile.mkdtemp(prefix="vf_c09_")
    path = os.path.join(d, "doc.json")
    with open(path, "w") as fh:
        json.dump(doc, fh)
    outs = {}
    try:
        for seed in seeds:
            env = dict(os.environ)
            env["PYTHONHASHSEED"] = str(seed)
            env["PYTHONPATH"] = "/repo"
            p = subprocess.run([sys.executable, "-c",
                                "import sys, json\nfrom statham.__main__ import main\nfrom statham.schema.parser import parse\nfrom statham.serializers.json import serialize_json\n"
                                "from json_ref_dict import materialize, RefDict\nfrom statham.titles import title_labeller\n"
                                "try:\n    print(main(sys.argv[1]))\n    s = materialize(RefDict.from_uri(sys.argv[1] + '#/'), context_labeller=title_labeller())\n    print(json.dumps(serialize_json(*parse(s)), sort_keys=True))\n"
                                "except Exception as e:\n    print('EXC', type(e).__name__)\n", path],
                               capture_output=True, text=True, env=env, timeout=120)
            outs.setdefault(p.stdout, []).append(seed)
    finally:
        try:
            os.remove(path)
            os.rmdir(d)
        except OSError:
            pass
    return outs


def deterministic(name, ka1, kb1, ka2, kb2):
    from vf.common import _tracing

    doc = DOCS[name]
    if _tracing():
        from vf.common import realize
        from crosshair.tracers import NoTracing

        # the oracle indices are the only symbolic inputs: realise them (solver-forked enumeration of
        # the oracle pairs), then generate concretely
        from vf.common import concretize_int

        ka1, ka2 = concretize_int(ka1, 0, 11), concretize_int(ka2, 0, 11)
        kb1, kb2 = concretize_int(kb1, 0, 1), concretize_int(kb2, 0, 1)
        from vf.prelude import real_hash

        with NoTracing(), real_hash():
            shim_all()
            return under_oracle(doc, ka1, kb1) == under_oracle(doc, ka2, kb2)
    # replay: real processes, real hash seeds
    outs = real_outputs(doc, range(64))
    return len(outs) == 1


_FRESH = {}


def fresh_output(name):
    """repr(generate(DOCS[name])) from a NEW interpreter that has generated nothing else (no shims)"""
    if name not in _FRESH:
        from vf.runner import env

        p = subprocess.run([sys.executable, "-c", "import sys\nfrom vf.props.C09 import generate, DOCS\nprint(repr(generate(DOCS[sys.argv[1]])))", name],
                           capture_output=True, text=True, env=env(), timeout=120)
        if p.returncode != 0:
            from vf.common import HarnessError

            raise HarnessError("fresh_output(%s): %s" % (name, p.stderr[-300:]))
        _FRESH[name] = p.stdout.strip()
    return _FRESH[name]


def history_independent(i, j):
    """the output for document B does not depend on what the process generated before: B generated before A, B generated
    after A, and B generated by a new interpreter are all identical"""
    from vf.common import _tracing, concretize_int

    names = sorted(DOCS)
    i, j = concretize_int(i, 0, len(names) - 1), concretize_int(j, 0, len(names) - 1)

    def go():
        # each ordered pair runs in its OWN interpreter (plain real code, no shims): A first - whatever A leaves behind
        # (caches keyed on equal-looking classes, registries) is there when B runs - then B, A, B again
        from vf.runner import env
        from vf.common import HarnessError

        p = subprocess.run([sys.executable, "-c", "import sys\nfrom vf.props.C09 import generate, DOCS\na, b = DOCS[sys.argv[1]], DOCS[sys.argv[2]]\n"
                            "try:\n    generate(a); x = generate(b); generate(a); y = generate(b)\n    print(repr(x)); print(x == y)\n"
                            "except Exception as e:\n    print('EXC ' + type(e).__name__); print(False)\n", names[i], names[j]],
                           capture_output=True, text=True, env=env(), timeout=120)
        if p.returncode != 0:
            raise HarnessError("history pair (%s, %s): %s" % (names[i], names[j], p.stderr[-300:]))
        out = p.stdout.strip().split("\n")
        return out[-1] == "True" and out[0] == fresh_output(names[j])

    if _tracing():
        from crosshair.tracers import NoTracing

        from vf.prelude import real_hash

        with NoTracing(), real_hash():
            return go()
    return go()


def oracle_active(name, ka, kb):
    """witness: the oracle really permutes something while generating"""
    from vf.prelude import OrderedSet

    shim_all()
    seen = [0]

    def hook(items):
        if len(items) >= 2:
            seen[0] += 1
        return permute(items, kb if len(items) == 2 else ka)

    OrderedSet.order_hook = hook
    try:
        generate(DOCS[name])
    finally:
        OrderedSet.order_hook = None
    return seen[0] > 0


# ------------------------------------------------------------------ AST scan of set sites
INSENSITIVE_CALLS = {"sorted", "len", "bool", "any", "all", "min", "max", "sum", "frozenset", "set"}


def _use_insensitive(node, parents):
    par = parents.get(node)
    if isinstance(par, ast.Compare) and any(isinstance(o, (ast.In, ast.NotIn)) for o in par.ops) and node in par.comparators:
        return True
    if isinstance(par, ast.Call) and isinstance(par.func, ast.Name) and par.func.id in INSENSITIVE_CALLS:
        return True
    if isinstance(par, (ast.If, ast.IfExp, ast.BoolOp, ast.UnaryOp, ast.While)):
        return True
    return False


def scan_set_sites(root="/repo/statham"):
    """returns (covered, insensitive, unclassified) lists of 'file:line: source' for set-valued expressions"""
    covered, insensitive, unclassified = [], [], []
    for dirpath, _dirs, files in os.walk(root):
        for fn in files:
            if not fn.endswith(".py"):
                continue
            path = os.path.join(dirpath, fn)
            src = open(path).read()
            tree = ast.parse(src)
            parents = {}
            for node in ast.walk(tree):
                for ch in ast.iter_child_nodes(node):
                    parents[ch] = node
            for node in ast.walk(tree):
                kind = None
                if isinstance(node, ast.Call) and isinstance(node.func, ast.Name) and node.func.id in ("set", "frozenset"):
                    kind = node.func.id
                elif isinstance(node, ast.Call) and isinstance(node.func, ast.Attribute) and isinstance(node.func.value, ast.Name) and node.func.value.id == "set":
                    kind = "set"
                elif isinstance(node, (ast.Set, ast.SetComp)):
                    kind = "literal"
                if kind is None:
                    continue
                where = "%s:%d: %s" % (os.path.relpath(path, "/repo"), node.lineno, ast.get_source_segment(src, node))
                if kind in ("set", "literal"):
                    # set(...) calls are reached by the module-global shim directly; set displays and set
                    # comprehensions are rewritten into such calls when the worker imports statham
                    # (vf.prelude.install_set_rewrite)
                    covered.append(where)
                    continue
                # literal / comprehension / frozenset: must be in an order-insensitive context
                cur, par = node, parents.get(node)
                ok = False
                while par is not None:
                    if isinstance(par, ast.BinOp):
                        # combined with a shimmed set?  set(...) - {"not"}: the shim's operators return the model
                        other = par.left if par.right is cur else par.right
                        if isinstance(other, ast.Call) and isinstance(other.func, ast.Name) and other.func.id == "set":
                            ok = True
                            break
                        cur, par = par, parents.get(par)
                        continue
                    if isinstance(par, ast.Compare) and any(isinstance(o, (ast.In, ast.NotIn)) for o in par.ops) and cur in par.comparators:
                        ok = True
                    elif isinstance(par, ast.Call) and isinstance(par.func, ast.Name) and par.func.id in INSENSITIVE_CALLS:
                        ok = True
                    elif isinstance(par, (ast.If, ast.IfExp, ast.BoolOp, ast.UnaryOp)):
                        ok = True
                    elif isinstance(par, ast.Assign):
                        names = [t.id for t in par.targets if isinstance(t, ast.Name)]
                        if names and all(n.isupper() for n in names):
                            ok = True  # module constant: uses are membership tests / operands of shimmed sets (scanned where used)
                        elif names:
                            # local variable: every use in the enclosing function must itself be order-insensitive
                            fn = par
                            while fn is not None and not isinstance(fn, (ast.FunctionDef, ast.Module)):
                                fn = parents.get(fn)
                            uses = [n for n in ast.walk(fn) if isinstance(n, ast.Name) and n.id in names and isinstance(n.ctx, ast.Load)]
                            ok = bool(uses) and all(_use_insensitive(u, parents) for u in uses)
                    break
                (insensitive if ok else unclassified).append(where)
    return covered, insensitive, unclassified


def harnesses(ctx) -> List[H]:
    hs: List[H] = []
    pre = ["0 <= ka1 < 12", "0 <= kb1 < 2", "0 <= ka2 < 12", "0 <= kb2 < 2"]
    for name in DOCS:
        hs.append(mk(f"c09_{name}", "ka1: int, kb1: int, ka2: int, kb2: int", pre, f"return deterministic({name!r}, ka1, kb1, ka2, kb2)", timeout=400, group="oracle",
                     tier="quick" if name in ("same_title_two_keywords", "definitions", "imports_many_kinds", "undeclared_required_and_sets", "many_schema_dependencies", "single_branch_defaults", "unnamed_characters") else "thorough",
                     covers=f"document {name}: outputs equal under two symbolic set-order oracles"))
    nd = len(DOCS)
    hs.append(mk("c09_history_independent", "i: int, j: int", [f"0 <= i < {nd}", f"0 <= j < {nd}"], "return history_independent(i, j)", timeout=300, group="history",
                 covers=f"all {nd}x{nd} ordered pairs (A, B) of documents: generate B, generate A, generate B again in one process - both outputs of B identical"))
    hs.append(mk("c09__oracle_active", "ka: int, kb: int", ["0 <= ka < 6", "0 <= kb < 6"], "return not oracle_active('same_title_two_keywords', ka, kb)", kind="witness", timeout=60))
    return hs


def extra_checks(ctx):
    out = {"obligations": 1, "discharged": 0, "evaluations": 0, "solver_s": 0.0, "violations": [], "harness_errors": [], "lines": [], "report": {}}
    covered, insensitive, unclassified = scan_set_sites()
    out["report"]["set_sites"] = {"reached_by_shim": covered, "order_insensitive": insensitive, "unclassified": unclassified}
    out["evaluations"] = len(covered) + len(insensitive) + len(unclassified)
    if unclassified:
        out["harness_errors"].append("set-valued expressions the order oracle cannot reach and that are not provably order-insensitive: %s" % unclassified)
    else:
        out["discharged"] = 1
    # concrete sanity of the replay mechanism (not the deciding step): 3 seeds on one document
    outs = real_outputs(DOCS["same_title_two_keywords"], (0, 1, 2) if ctx.tier == "quick" else range(12))
    out["report"]["real_seed_runs"] = {"distinct_outputs": len(outs), "seeds": sorted(sum(outs.values(), []))}
    if len(outs) != 1:
        d = "/verif/replays/C09"
        os.makedirs(d, exist_ok=True)
        import json

        path = os.path.join(d, "seeds-same_title_two_keywords.json")
        with open(path, "w") as fh:
            json.dump({"property": "C09", "harness": "c09_same_title_two_keywords", "call": "deterministic('same_title_two_keywords', 0, 0, 0, 0)",
                       "detail": {"seeds_by_output": list(outs.values())}}, fh, indent=1)
        out["violations"].append(("seeds:same_title_two_keywords", path, "outputs differ between PYTHONHASHSEED values %s" % list(outs.values())))
    return out


def _demo_hashseed_suffix():
    return len(real_outputs(DOCS["same_title_two_keywords"], range(16))) != 1


DEMOS = {"C09-composition-set-order": _demo_hashseed_suffix}
