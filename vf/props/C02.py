"""C02 - generated Python models accept exactly what the source schema accepts (E1)."""
import os
import tempfile
from typing import List

from vf.harness import H, mk

EXPLANATION = (
    "Per document skeleton (local / def-to-def / shared / cross-file $ref, titled and untitled nested objects, repeated titles, keyword "
    "values equal to constructor defaults, objects in every keyword position, renamed properties, defaults, non-object roots) the REAL "
    "statham.__main__.main() is run on files; the text is exec'd in an empty namespace (only its own imports available); structure: "
    "one class per distinct object schema with the parser's names, every class equal to the parsed class. Equivalence (solver): the "
    "generated root and the parsed root give the same verdict and an equal result for every value of the skeleton's shape (symbolic "
    "integers, presence flags, and for flat skeletons a symbolic dict). Text: descriptions/docstrings via the C07 lexer model; names "
    "and titles via C12. Skeletons are enumerated; within a skeleton the value dimension is decided by z3."
)
ASSUMPTIONS = [
    "json_ref_dict, file I/O and compile() run concretely (documents have concrete keyword values)",
    "Python's parser is not encoded: beyond the docstring-literal model the generated text is checked by executing it",
    "remote (http) references are outside the claim",
]
FUNCTIONS = ["statham.__main__:main", "statham.titles:_get_title_from_reference", "statham.schema.parser:parse", "statham.schema.parser:_ParseState.dedupe",
             "statham.schema.elements.meta:ObjectMeta.python", "statham.schema.property:_Property.python", "statham.schema.helpers:custom_repr_args",
             "statham.serializers.orderer:orderer", "statham.serializers.python:_get_imports"]

INNER = {"type": "object", "properties": {"n": {"type": "integer", "minimum": 1}}, "required": ["n"]}

# name -> (files: {filename: doc}, entry file, value builder expression over x, y, h1, h2)
SKELETONS = {
    "root_def_def": ({"doc.json": {
        "type": "object", "title": "Root", "properties": {"a": {"$ref": "#/definitions/A"}, "id": {"type": "integer"}},
        "definitions": {"A": {"type": "object", "properties": {"b": {"$ref": "#/definitions/B"}}, "required": ["b"]},
                        "B": {"type": "object", "properties": {"n": {"type": "integer", "minimum": 1}}, "additionalProperties": False}}}},
        "doc.json", '{"a": {"b": ({"n": x} if h1 else {"m": x})}, **({"id": y} if h2 else {})}'),
    "shared_def": ({"doc.json": {
        "type": "object", "title": "Root", "properties": {"x": {"$ref": "#/definitions/A"}, "y": {"$ref": "#/definitions/A"},
                                                         "zs": {"type": "array", "items": {"$ref": "#/definitions/A"}, "maxItems": 2}},
        "definitions": {"A": INNER}}},
        "doc.json", '{"x": {"n": x}, **({"y": {"n": y}} if h1 else {}), **({"zs": [{"n": y}, {"n": x}]} if h2 else {})}'),
    "cross_file": ({"doc.json": {"type": "object", "title": "Root", "properties": {"t": {"$ref": "other.json#/definitions/T"}, "u": {"$ref": "other.json#/definitions/U"}}},
                    "other.json": {"definitions": {"T": {"type": "object", "properties": {"u": {"$ref": "#/definitions/U"}}, "required": ["u"]},
                                                   "U": {"type": "object", "properties": {"n": {"type": "integer", "maximum": 5}}}}}},
                   "doc.json", '{"t": {"u": {"n": x}}, **({"u": {"n": y}} if h1 else {}), **({"extra": y} if h2 else {})}'),
    "untitled_nested": ({"doc.json": {
        "type": "object", "properties": {
            "child": {"type": "object", "properties": {"n": {"type": "integer", "minimum": 0}}},
            "list": {"type": "array", "items": {"type": "object", "properties": {"n": {"type": "integer"}}, "required": ["n"]}},
            "alt": {"anyOf": [{"type": "object", "properties": {"k": {"type": "integer"}}, "required": ["k"]}, {"type": "null"}]}}}},
        "doc.json", '{"child": {"n": x}, **({"list": [{"n": y}, ({"n": x} if h2 else {})]} if h1 else {"alt": ({"k": y} if h2 else None)})}'),
    "repeated_titles": ({"doc.json": {
        "type": "object", "title": "Root", "properties": {
            "p": {"type": "object", "title": "Thing", "properties": {"n": {"type": "integer", "minimum": 0}}},
            "q": {"type": "object", "title": "Thing", "properties": {"n": {"type": "integer", "maximum": 0}}},
            "r": {"type": "object", "title": "Thing", "properties": {"n": {"type": "integer", "minimum": 0}}},
            "s": {"type": "object", "title": "thing", "properties": {"m": {"type": "integer"}}}}}},
        "doc.json", '{"p": {"n": x}, "q": {"n": y}, **({"r": {"n": y}} if h1 else {}), **({"s": {"m": x}} if h2 else {})}'),
    "defaults_equal_to_constructor": ({"doc.json": {
        "type": "object", "title": "Root", "additionalProperties": True, "required": [], "properties": {
            "arr": {"type": "array", "items": {"type": "integer"}, "uniqueItems": False, "additionalItems": True, "minItems": 0},
            "tup": {"type": "array", "items": [{"type": "integer"}], "additionalItems": True},
            "any": {}, "nul": {"type": "null", "default": None}, "zero": {"type": "integer", "default": 0, "minimum": 0},
            "obj": {"type": "object", "title": "Obj", "additionalProperties": True, "properties": {}, "minProperties": 0}}}},
        "doc.json", '{"arr": [x, y], "tup": [x, "s"], **({"zero": y} if h1 else {}), **({"obj": {"k": x}} if h2 else {})}'),
    "objects_in_positions": ({"doc.json": {
        "type": "object", "title": "Root",
        "properties": {"tup": {"type": "array", "items": [{"type": "integer"}, {"type": "object", "title": "TupItem", "properties": {"n": {"type": "integer", "minimum": 0}}}],
                               "additionalItems": {"type": "object", "title": "Extra", "required": ["e"]}},
                       "cont": {"type": "array", "contains": {"type": "object", "title": "Needle", "required": ["n"]}},
                       "neg": {"not": {"type": "object", "title": "Forbidden", "required": ["bad"]}}},
        "patternProperties": {"^p_": {"type": "object", "title": "Pat", "properties": {"n": {"type": "integer", "maximum": 9}}}},
        "additionalProperties": {"oneOf": [{"type": "object", "title": "AddlA", "required": ["a"]}, {"type": "object", "title": "AddlB", "required": ["b"]}, {"type": "integer"}]},
        "dependencies": {"tup": {"type": "object", "title": "Dep", "required": ["cont"]}}}},
        "doc.json", '{**({"tup": [x, {"n": y}, {"e": x}], "cont": [{"n": 1}, 2]} if h1 else {"cont": [x]}), "p_1": {"n": y}, "zz": ({"a": x} if h2 else {"a": x, "b": y}), "neg": {"bad": x} if x > y else {"ok": y}}'),
    "renamed_and_literals": ({"doc.json": {
        "type": "object", "title": "Root", "description": "Line one.\nLine two with 'single' quotes.",
        "properties": {"a b": {"type": "integer", "minimum": 0}, "class": {"type": "string", "default": "x"}, "$id": {"type": "integer"},
                       "const": {"const": {"k": [1, True, None, "s", 1.5]}}, "enum": {"enum": [1, "1", True, [1]]}},
        "required": ["a b", "class", "undeclared"], "default": {"a b": 1, "undeclared": 2}}},
        "doc.json", '{"a b": x, "undeclared": y, **({"class": "c"} if h1 else {}), **({"enum": (True if x > 0 else 1), "$id": y} if h2 else {})}'),
    "array_root": ({"doc.json": {"type": "array", "items": {"type": "object", "title": "Row", "properties": {"n": {"type": "integer", "minimum": 0}, "sub": {"type": "object", "title": "Sub"}}}, "minItems": 1}},
                   "doc.json", '[{"n": x}] + ([{"n": y, "sub": {"q": x}}] if h1 else []) + ([{}] if h2 else [])'),
    "typelist_and_composition": ({"doc.json": {
        "type": "object", "title": "Root", "properties": {
            "tl": {"type": ["object", "integer", "null"], "title": "Tl", "properties": {"n": {"type": "integer"}}, "minimum": 3},
            "comp": {"type": "object", "title": "Comp", "properties": {"n": {"type": "integer"}}, "anyOf": [{"required": ["n"]}, {"required": ["m"]}], "default": {"m": 1}}},
        "definitions": {"Unused": {"type": "object", "properties": {"z": {"type": "boolean"}}}}}},
        "doc.json", '{"tl": ({"n": x} if h1 else x), **({"comp": ({"n": y} if y > 0 else {"q": y})} if h2 else {})}'),
    "boolean_subschemas": ({"doc.json": {
        "type": "object", "title": "Root", "properties": {
            "never": False, "always": True,
            "none": {"type": "array", "items": False},
            "notnot": {"not": False},
            "names": {"type": "object", "title": "Names", "propertyNames": False},
            "has": {"type": "array", "contains": True, "items": {"type": "integer"}}},
        "additionalProperties": {"type": "integer"}}},
        "doc.json", '{"always": x, **({"none": ([] if h2 else [y])} if h1 else {"has": [x, y], "names": ({} if h2 else {"k": 1})}), "notnot": y, "extra": x}'),
    "false_only_in_single_positions": ({"doc.json": {
        "type": "object", "title": "Root", "properties": {"gone": False, "n": {"type": "integer", "minimum": 0}}, "required": ["n"]}},
        "doc.json", '{"n": x, **({"gone": y} if h1 else {}), **({"other": y} if h2 else {})}'),
    "equal_shapes_different_titles": ({"doc.json": {
        "type": "object", "title": "Basket", "properties": {
            "apples": {"type": "array", "items": {"type": "object", "title": "Apple", "properties": {"n": {"type": "integer", "minimum": 0}}}},
            "pears": {"type": "array", "items": {"type": "object", "title": "Pear", "properties": {"n": {"type": "integer", "minimum": 0}}}},
            "left": {"type": "object", "title": "Left", "properties": {"child": {"type": "object", "title": "LeftChild", "required": ["k"]}}},
            "right": {"type": "object", "title": "Right", "properties": {"child": {"type": "object", "title": "RightChild", "required": ["k"]}}}}}},
        "doc.json", '{"apples": [{"n": x}], **({"pears": [{"n": y}, {"n": x}]} if h1 else {}), **({"left": {"child": {"k": x}}, "right": {"child": ({"k": y} if y > 0 else {})}} if h2 else {})}'),
    "nested_literals": ({"doc.json": {
        "type": "object", "title": "Root", "properties": {
            "deep": {"const": {"a": {"b": [{"c": 1}]}}},
            "choice": {"enum": [{"on": {"level": 3}}, {"off": {}}, [{"k": {"j": 1}}]]},
            "n": {"type": "integer", "default": 0}},
        "default": {"deep": {"a": {"b": [{"c": 1}]}}, "n": 1}}},
        "doc.json", '{**({"deep": {"a": {"b": [{"c": (1 if h2 else x)}]}}} if h1 else {"choice": ({"on": {"level": 3}} if h2 else {"on": {"level": x}})}), "n": y}'),
    "object_under_not": ({"doc.json": {
        "type": "object", "properties": {"n": {"type": "integer", "minimum": 0},
                                         "part": {"type": "object", "title": "Part", "properties": {"w": {"type": "integer"}}, "not": {"type": "object", "title": "Part", "required": ["bad"]}}},
        "not": {"type": "object", "required": ["forbidden"]}}},
        "doc.json", '{"n": x, **({"part": ({"w": y} if h2 else {"w": y, "bad": 1})} if h1 else {"forbidden": y})}'),
    "pointer_entry": ({"doc.json": {"definitions": {"Entry": {"type": "object", "properties": {"k": {"$ref": "#/definitions/K"}}, "required": ["k"]},
                                                    "K": {"type": "object", "properties": {"n": {"type": "integer", "minimum": 2}}}}}},
                      "doc.json#/definitions/Entry", '{"k": ({"n": x} if h1 else {"m": y}), **({"z": y} if h2 else {})}'),
}

# single-file skeletons without C01-level known deviations: the generated root is also compared with ref6 on the source
REF6_SKELETONS = {"object_under_not", "root_def_def", "shared_def", "untitled_nested", "repeated_titles", "nested_literals", "equal_shapes_different_titles", "boolean_subschemas"}

# documents generated one after the other in ONE process: same root title / property names / structure, children titled differently
SKELETONS["seq_alpha"] = ({"doc.json": {"type": "object", "title": "Root", "properties": {
    "child": {"type": "object", "title": "Alpha", "properties": {"n": {"type": "integer", "minimum": 0}}}, "other": {"type": "object", "title": "Gamma", "required": ["g"]}}}},
    "doc.json", '{"child": ({"n": x} if h1 else {}), **({"other": ({"g": y} if y > 0 else {})} if h2 else {})}')
SKELETONS["seq_beta"] = ({"doc.json": {"type": "object", "title": "Root", "properties": {
    "child": {"type": "object", "title": "Beta", "properties": {"n": {"type": "integer", "minimum": 0}}}, "other": {"type": "object", "title": "Alpha", "required": ["g"]}}}},
    "doc.json", '{"child": ({"n": x} if h1 else {}), **({"other": ({"g": y} if y > 0 else {})} if h2 else {})}')

# annotations that are bare typing names (no subscript anywhere in the module): Array([], additionalItems=False) -> `List`.
# ("items": [] is outside the Draft-6 metaschema; statham accepts it, so the module it generates must still run.)
SKELETONS["bare_typing_names"] = ({"doc.json": {"type": "object", "title": "Root", "properties": {
    "tags": {"type": "array", "items": [], "additionalItems": False}, "name": {"type": "string"},
    "either": {"anyOf": [{"type": "array", "items": [], "additionalItems": False}, {"type": "string"}]}, "any": {}}}},
    "doc.json", '{**({"tags": ([] if h2 else [x])} if h1 else {"either": ([] if h2 else "s")}), "any": y}')

_CNT = [0]


def generate(name):
    """run the real main() and the parser on the skeleton's files: (text, parsed elements)"""
    from vf.common import _tracing

    files, entry, _ = SKELETONS[name]

    def go():
        import json
        from statham.__main__ import main, parse_input_arg
        from statham.schema.parser import parse
        from statham.titles import title_labeller
        from json_ref_dict import materialize, RefDict

        _CNT[0] += 1
        d = tempfile.mkdtemp(prefix="vf_c02_%d_%d_" % (os.getpid(), _CNT[0]))
        try:
            for fn, doc in files.items():
                with open(os.path.join(d, fn), "w") as fh:
                    json.dump(doc, fh)
            uri = parse_input_arg(os.path.join(d, entry))
            text = main(uri)
            schema = materialize(RefDict.from_uri(uri), context_labeller=title_labeller())
            parsed = parse(schema)
            return text, parsed
        finally:
            for fn in files:
                try:
                    os.remove(os.path.join(d, fn))
                except OSError:
                    pass
            try:
                os.rmdir(d)
            except OSError:
                pass

    if _tracing():
        from crosshair.tracers import NoTracing

        from vf.prelude import real_hash

        with NoTracing(), real_hash():
            return go()
    return go()


def struct_ok(text, parsed):
    """executes with its own imports only; exactly the parser's classes, each equal to the parsed one"""
    from vf.common import exec_generated, classes_of, get_object_classes

    ns = exec_generated(text)
    if ns is None:
        return None
    gen = classes_of(ns)
    classes = []
    for c in get_object_classes(*parsed):
        if not any(c is d for d in classes):
            classes.append(c)
    names = [c.__name__ for c in classes]
    if len(set(names)) != len(names):
        return None
    if set(gen) != set(names):
        return None
    for c in classes:
        g = gen[c.__name__]
        if not (g == c and c == g):
            return None
        if text.count("class %s(" % c.__name__) != 1:
            return None
    return ns


def root_of(ns, parsed):
    """the generated counterpart of the parsed root element: the root's repr (its constructor expression, C18)
    evaluated with the GENERATED classes standing for the parsed ones"""
    from vf.common import ObjectMeta, public_ns, classes_of

    root = parsed[0]
    if isinstance(root, ObjectMeta):
        return ns[root.__name__]
    env = public_ns()
    env.update(classes_of(ns))
    try:
        return eval(repr(root), env)  # noqa: S307
    except Exception:  # noqa
        return None


def equivalent(name, v):
    from vf.common import verdict, plain, jcopy, jeq, result_eq

    text, parsed = generate(name)
    ns = struct_ok(text, parsed)
    if ns is None:
        return False
    g = root_of(ns, parsed)
    if g is None:
        return False
    a1, r1 = verdict(parsed[0], jcopy(v))
    a2, r2 = verdict(g, jcopy(v))
    if a1 != a2:
        return False
    if name in REF6_SKELETONS:
        # independent oracle: the SOURCE document (not the labelled/materialised one) under ref6
        from vf.common import ref6, deref

        files, entry, _ = SKELETONS[name]
        if ref6(deref(files[entry]), jcopy(v)) != a1:
            return False
    if a1 and not result_eq(r1, r2):
        return False
    return True


def equivalent_after(first, name, v):
    """the document `first` was generated (and its module executed) earlier in the same process"""
    from vf.common import exec_generated

    text, _parsed = generate(first)
    exec_generated(text)
    return equivalent(name, v)


def accepted(name, v):
    from vf.common import accepts

    _text, parsed = generate(name)
    return accepts(parsed[0], v)


def harnesses(ctx) -> List[H]:
    hs: List[H] = []
    quick = {"bare_typing_names", "seq_alpha", "seq_beta", "root_def_def", "shared_def", "cross_file", "untitled_nested", "repeated_titles", "defaults_equal_to_constructor", "renamed_and_literals", "boolean_subschemas", "false_only_in_single_positions", "equal_shapes_different_titles", "nested_literals", "object_under_not"}
    for name, (_files, _entry, build) in SKELETONS.items():
        hs.append(mk(f"c02_{name}", "x: int, y: int, h1: bool, h2: bool", [], f"v = {build}\nreturn equivalent({name!r}, v)", timeout=200, group="skeleton",
                     tier="quick" if name in quick else "thorough", covers=f"skeleton {name}: main() output executes, defines the parser's classes (equal), root verdict/result equal for the value family {build}"))
        hs.append(mk(f"c02_{name}__acc", "x: int, y: int, h1: bool, h2: bool", [], f"v = {build}\nreturn not accepted({name!r}, v)", kind="witness", timeout=60, group="skeleton",
                     tier="quick" if name in quick else "thorough"))
    for first, second in (("seq_alpha", "seq_beta"), ("seq_beta", "seq_alpha"), ("equal_shapes_different_titles", "seq_alpha")):
        build = SKELETONS[second][2]
        hs.append(mk(f"c02_after_{first}_then_{second}", "x: int, y: int, h1: bool, h2: bool", [], f"v = {build}\nreturn equivalent_after({first!r}, {second!r}, v)", timeout=200, group="sequence",
                     covers=f"{second} generated after {first} in the same process (same root title, property names and structure; children titled differently)"))
    # flat skeleton with a fully symbolic dict value
    hs.append(mk("c02_flat_symbolic_dict", "v: Dict[str, int]", ["len(v) <= 2", "all(k in ('a b', 'undeclared', '$id', 'zz') for k in v)"],
                 "return equivalent('renamed_and_literals', v)", timeout=300, group="skeleton", covers="renamed_and_literals with a symbolic Dict[str,int] value"))
    hs.append(mk("c02_shared_symbolic_dict", "v: Dict[str, Dict[str, int]]", ["len(v) <= 2", "all(k in ('x', 'y', 'q') for k in v)", "all(len(d) <= 1 and all(k in ('n', 'm') for k in d) for d in v.values())"],
                 "return equivalent('shared_def', v)", timeout=300, group="skeleton", tier="thorough", covers="shared_def with a symbolic nested dict value"))
    return hs


def _demo_empty_description():
    """description '' : generated class loses it (docstring '' is falsy in __init_subclass__)"""
    from vf.common import parse_s, serialize_python, exec_module

    cls = parse_s({"type": "object", "title": "E", "description": ""})
    ns = exec_module(serialize_python(cls))
    return not (ns["E"] == cls)


DEMOS = {"C02-empty-description": _demo_empty_description}
