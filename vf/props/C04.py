"""C04 - an accepted value comes back complete and unaltered inside the model (E1)."""
from typing import List

from vf.harness import H, mk

EXPLANATION = (
    "For every template and every accepted symbolic value the returned model is compared with the input by the recursive relation "
    "same(result, value, element): scalars equal and of the same type (int -> equal float only under Number); lists same length and "
    "order, pairwise same; objects: every input member is present - under the Python name when a declared property has that JSON "
    "name, else under the JSON name - and the only other members are declared properties absent from the input holding their "
    "default construction or NotPassed; model attributes agree with item access. For compositions the relation must hold for some "
    "branch that accepts the value."
)
ASSUMPTIONS = ["same() locates the sub-element for a member/index with the element's own __properties__/__items__ lookup (used only to find renames at nested levels)"]
FUNCTIONS = ["statham.schema.elements.base:Element.construct", "statham.schema.elements.properties:Properties.__call__", "statham.schema.elements.items:Items.__call__",
             "statham.schema.elements.object:Object.__init__", "statham.schema.elements.composition:_attempt_schemas", "statham.schema.elements.numeric:Number.construct"]


def same(r, v, el):
    from vf.common import (NotPassed, Object, ObjectMeta, Element, Number, Not, CompositionElement, Nothing, accepts, jcopy)

    if isinstance(el, CompositionElement):
        for b in el.elements:
            if accepts(b, jcopy(v)) and same(r, v, b):
                return True
        return False
    if isinstance(el, Not):
        return same(r, v, Element())
    if isinstance(v, bool) or v is None or isinstance(v, str):
        return type(r) is type(v) and r == v
    if isinstance(v, (int, float)):
        if isinstance(el, Number):
            return isinstance(r, float) and not isinstance(r, bool) and r == v
        return type(r) is type(v) and r == v
    if isinstance(v, list):
        if not isinstance(r, list) or len(r) != len(v):
            return False
        items = el.__items__
        for i in range(len(v)):
            if not same(r[i], v[i], items[i]):
                return False
        return True
    if isinstance(v, dict):
        if isinstance(el, ObjectMeta):
            if not isinstance(r, el):
                return False
            members = r._dict
        else:
            if isinstance(r, Object) or not isinstance(r, dict):
                return False
            members = r
        declared = el.properties if not isinstance(getattr(el, "properties", NotPassed()), NotPassed) else {}
        by_source = {}
        for py, prop in declared.items():
            by_source[prop.source or py] = (py, prop)
        lookup = el.__properties__
        expected_keys = []
        for k in v:
            if k in by_source:
                py, prop = by_source[k]
                key = py
            else:
                key = k
            if key in expected_keys:
                return False  # two input members collapsed onto one key
            expected_keys.append(key)
            if key not in members:
                return False
            if not same(members[key], v[k], lookup[k].element):
                return False
            if isinstance(el, ObjectMeta) and k in by_source:
                if getattr(r, key) is not members[key]:
                    return False
        for key in members:
            if key in expected_keys:
                continue
            # only declared properties absent from the input may appear, holding default or NotPassed
            if key not in declared:
                return False
            prop = declared[key]
            if (prop.source or key) in v:
                return False
            val = members[key]
            if not isinstance(val, NotPassed) and isinstance(getattr(prop.element, "default", NotPassed()), NotPassed):
                return False
        for py in declared:
            if py not in members:
                return False
        return True
    return False


def complete_ok(make, v):
    from vf.common import verdict, jcopy, jeq

    el = make()
    c = jcopy(v)
    ok, r = verdict(el, v)
    if not ok:
        return True
    return same(r, c, el)


def accepted(make, v):
    from vf.common import accepts

    return accepts(make(), v)


DV = "Dict[str, int]"
DPRE = ["len(v) <= 2", "all(k in ('a', 'b', 'a b') for k in v)"]
LV = "List[Union[int, bool]]"

def _used_base_then_child(m):
    """a hand-written child of a model class that has ALREADY validated something"""
    from vf.common import Object, Property, Number, Integer, accepts

    Base = Object.inline("Base", properties={"a": Property(Number(minimum=m), required=True)}, additionalProperties=Integer())
    accepts(Base, {"a": m})
    accepts(Base, {"a": m, "zz": 1})

    class Child(Base):  # type: ignore
        b_ = Property(Number(), source="b")
        ab_ = Property(Integer(default=1), source="a b")

    return Child


def _child_inheriting_renamed(m, use_base_first):
    """child that INHERITS renamed properties (source != attribute name) from its base and adds one of its own"""
    from vf.common import Object, Property, Number, Integer, accepts

    class Base(Object):  # type: ignore
        a_ = Property(Number(minimum=m), source="a")
        ab_ = Property(Integer(default=1), source="a b")

    if use_base_first:
        accepts(Base, {"a": m})

    class Child(Base):  # type: ignore
        b = Property(Number())

    return Child


TEMPLATES = {
    "child_inheriting_renamed": ("mn: int, ubf: bool", "_child_inheriting_renamed(mn, ubf)", "FLAGS:a,b,a b", [], "quick"),
    "class_with_default": ("mn: int", 'Object.inline("D", properties={"a": Property(Number(minimum=mn)), "b": Property(Integer(default=2))}, default={"a": mn, "b": 7, "zz": 1})', "FLAGS:a,b,a b", [], "quick"),
    "nested_class_with_default": ("mn: int", 'Element(properties={"in": Property(Object.inline("D", properties={"x y": Property(Number(minimum=mn))}, default={"x y": mn, "q": 1}))}, items=Object.inline("E", properties={"x y": Property(Integer())}, default={"x y": 3}))', "FLAGS:in,b|x y", [], "quick"),
    "child_of_used_base": ("mn: int", "_used_base_then_child(mn)", "FLAGS:a,b,a b", [], "quick"),
    "obj_untyped": ("mn: int", 'parse_s({"properties": {"a": {"minimum": mn}, "a b": {"type": "integer"}, "b": {"default": 3}}, "patternProperties": {"b$": {"maximum": mn}}})', DV, DPRE, "quick"),
    "obj_typed": ("mn: int", 'parse_s({"type": "object", "title": "T", "properties": {"a": {"type": "number", "minimum": mn}, "a b": {"type": "integer"}, "b": {"default": 3}}, "patternProperties": {"b$": {"maximum": mn}}, "additionalProperties": {"type": "number"}})', "FLAGS:a,b,a b", [], "quick"),
    "obj_dsl_renamed": ("mn: int", 'Object.inline("M", properties={"a_": Property(Number(minimum=mn), source="a", required=True), "b": Property(Integer(default=1)), "ab_": Property(Element(), source="a b")})', "FLAGS:a,b,a b", [], "quick"),
    "elem_dsl_renamed": ("mn: int", 'Element(properties={"a_": Property(Number(minimum=mn), source="a"), "b": Property(Integer(default=1))}, additionalProperties=Number())', "FLAGS:a,b,a b", [], "quick"),
    "obj_addl_closed": ("mn: int", 'parse_s({"type": "object", "title": "T", "properties": {"a": {"minimum": mn}}, "patternProperties": {"^a": {"type": "number"}}, "additionalProperties": False})', DV, DPRE, "thorough"),
    "arr_number": ("m: int", 'parse_s({"type": "array", "items": {"type": "number", "maximum": m}})', "List[int]", ["len(v) <= 3"], "quick"),
    "arr_tuple": ("m: int", 'parse_s({"items": [{"type": "number"}, {"type": "boolean"}], "additionalItems": {"type": "integer", "minimum": m}})', LV, ["len(v) <= 3"], "quick"),
    "arr_tuple_untyped_addl": ("m: int", 'parse_s({"type": "array", "items": [{"type": "integer"}, {"maximum": m}]})', LV, ["len(v) <= 3"], "thorough"),
    "arr_nested": ("m: int", 'parse_s({"items": {"type": "array", "items": {"type": "number", "minimum": m}}})', "List[List[int]]", ["len(v) <= 2", "all(len(x) <= 2 for x in v)"], "quick"),
    "arr_of_objects": ("m: int", 'Array(Object.inline("It", properties={"a_": Property(Number(maximum=m), source="a")}))', "List[Dict[str, int]]", ["len(v) <= 2", "all(len(d) <= 1 and all(k in ('a', 'b') for k in d) for d in v)"], "quick"),
    "nested_object": ("m: int", 'parse_s({"type": "object", "title": "Outer", "properties": {"in": {"type": "object", "title": "Inner", "properties": {"x y": {"type": "number", "minimum": m}}}}, "additionalProperties": {"properties": {"x y": {"type": "integer"}}}})', "FLAGS:in,b|x y", [], "quick"),
    "anyof_objects": ("m: int", 'parse_s({"anyOf": [{"type": "object", "title": "A", "properties": {"a": {"type": "number", "minimum": m}}, "required": ["a"]}, {"type": "object", "title": "B", "properties": {"a b": {"type": "integer"}}}]})', "FLAGS:a,b,a b", [], "quick"),
    "oneof_objects": ("m: int", 'parse_s({"oneOf": [{"type": "object", "title": "A", "properties": {"a": {"type": "number", "minimum": m}}, "required": ["a"]}, {"properties": {"a": {"maximum": m}}, "required": ["b"]}]})', "FLAGS:a,b,a b", [], "quick"),
    "allof_objects": ("m: int", 'parse_s({"allOf": [{"properties": {"a b": {"type": "integer"}}}, {"type": "object", "title": "A", "properties": {"a": {"type": "number", "minimum": m}}}]})', "FLAGS:a,b,a b", [], "thorough"),
    "typed_with_comp": ("m: int", 'parse_s({"type": "object", "title": "A", "properties": {"a b": {"type": "number"}}, "anyOf": [{"required": ["a"]}, {"required": ["b"]}]})', "FLAGS:a,b,a b", [], "thorough"),
    "typelist": ("m: int", 'parse_s({"type": ["number", "string", "array"], "minimum": m, "items": {"type": "number"}})', "Union[int, str, List[int]]", ["not isinstance(v, str) or len(v) <= 2", "not isinstance(v, list) or len(v) <= 2"], "quick"),
    "not_scalar": ("m: int", 'parse_s({"not": {"minimum": m}, "type": ["integer", "null", "boolean"]})', "Union[int, bool, None]", [], "quick"),
    "anyof_number_integer": ("m: int", 'AnyOf(Integer(minimum=m), Number())', "Union[int, bool]", [], "quick"),
    "mixed_members": ("m: int", 'parse_s({"type": "object", "title": "Mx", "properties": {"a": {"type": "integer"}, "a b": {"type": ["string", "null"]}}, "additionalProperties": {"type": ["boolean", "integer"]}})', "Dict[str, Union[int, bool, str, None]]", ["len(v) <= 2", "all(k in ('a', 'b', 'a b') for k in v)", "all((not isinstance(x, str)) or len(x) <= 1 for x in v.values())"], "thorough"),
}


def _flags(names, inner=None):
    """fixed member names with symbolic presence flags and symbolic int values
    (a symbolic Dict[str,int] holding floats after Number.construct does not exhaust)."""
    args = ", ".join(f"x{i}: int, h{i}: bool" for i in range(len(names)))
    lines = ["v = {}"]
    for i, n in enumerate(names):
        val = f"x{i}" if inner is None else "{%r: x%d}" % (inner, i)
        lines.append(f"if h{i}: v[{n!r}] = {val}")
    return args, "\n".join(lines)


def _demo_collision():
    """input holds a renamed property's JSON name AND a member named like its Python attribute"""
    from vf.common import Element, Property, Integer

    def make():
        return Element(properties={"a_": Property(Integer(), source="a")})

    return not complete_ok(make, {"a": 1, "a_": 2})


DEMOS = {"C04-attribute-name-collision": _demo_collision}


def harnesses(ctx) -> List[H]:
    hs: List[H] = []
    # pool contains the Python attribute names of the renamed properties as well
    excl = ctx.excl("C04-attribute-name-collision", "not (('a' in v and 'a_' in v) or ('a b' in v and 'a_b' in v))")
    hs.append(mk("c04_names_and_attribute_names", "mn: int, v: Dict[str, int]", ["len(v) <= 2", "all(k in ('a', 'a_', 'a b', 'a_b', 'z') for k in v)"] + excl, """
def make():
    return Element(properties={"a_": Property(Integer(minimum=mn), source="a"), "a_b": Property(Integer(), source="a b")}, additionalProperties=Integer(maximum=mn))
return complete_ok(make, v)
""", timeout=150, group="complete", covers="members named like the Python attribute of a renamed property, next to / instead of its JSON name"))
    fargs, fsetup = _flags(["a", "b", "a b"])
    hs.append(mk("c04_inherited_renames_by_declaration", f"mn: int, ubf: bool, {fargs}", [], f"""
{fsetup}
Child = _child_inheriting_renamed(mn, ubf)
ok, r = verdict(Child, jcopy(v))
if not ok:
    return True
# the expected attribute for each JSON name comes from the DECLARATION (Base.a_ has source "a"), not from the class under test
want_a = float(v["a"]) if "a" in v else None
want_ab = v["a b"] if "a b" in v else 1
got_a = r.a_ if not isinstance(r.a_, NotPassed) else None
return got_a == want_a and type(got_a) is type(want_a) and r.ab_ == want_ab and set(r._dict) == {{"a_", "ab_", "b"}}
""", timeout=150, group="complete", covers="renamed properties inherited from a base class: attribute names and JSON names as DECLARED on the base"))
    fargs2, fsetup2 = _flags(["a", "a b", "class"])
    hs.append(mk("c04_parsed_renames_by_schema", f"mn: int, typed: bool, {fargs2}", [], f"""
{fsetup2}
S = {{"properties": {{"a": {{"type": "number", "minimum": mn}}, "a b": {{"type": "integer"}}, "class": {{"type": "integer", "default": 5}}}}}}
if typed:
    S.update({{"type": "object", "title": "T"}})
ok, r = verdict(parse_s(S), jcopy(v))
if not ok:
    return True
# expected Python names written down here (documented renaming rule), not read back from the parsed class
get = (lambda k: getattr(r, k)) if typed else (lambda k: r[k])
a, ab, cl = get("a"), get("a_b"), get("class_")
return ((a == v["a"] and type(a) is float) if "a" in v else isinstance(a, NotPassed)) and (ab == v["a b"] if "a b" in v else isinstance(ab, NotPassed)) and cl == v.get("class", 5)
""", timeout=150, group="complete", covers="declared properties of a PARSED schema are readable under the documented Python names (a, a_b, class_), typed and untyped"))
    for name, (hargs, make, vt, pre, tier) in TEMPLATES.items():
        setup = ""
        vargs = f"v: {vt}"
        if vt.startswith("FLAGS:"):
            spec = vt[len("FLAGS:"):]
            inner = None
            if "|" in spec:
                spec, inner = spec.split("|")
            vargs, setup = _flags(spec.split(","), inner)
            pre = []
        body = f"""
{setup}
def make():
    return {make}
return complete_ok(make, v)
"""
        hs.append(mk(f"c04_{name}", f"{hargs}, {vargs}", pre, body, tier=tier, timeout=150, group="complete", covers=make))
        body = f"""
{setup}
def make():
    return {make}
return not (accepted(make, v) and len(v) >= 1)
""" if not vt.startswith("Union") else f"""
def make():
    return {make}
return not accepted(make, v)
"""
        hs.append(mk(f"c04_{name}__acc", f"{hargs}, {vargs}", pre, body, kind="witness", tier=tier, timeout=30, group="complete"))
    return hs
