"""C06 - serialize-then-parse is the identity on statham's normal form (E1)."""
from typing import List

from vf.harness import H, mk

EXPLANATION = (
    "J0 (schema template, integer/bool/str holes and presence flags symbolic) -> E1 = parse_element(J0) -> J1 = serialize_json(E1) -> "
    "E2 = parse_element(deref(J1)) -> J2 = serialize_json(E2); z3 decides jeq(J1, J2) (type-aware, so true != 1) and E1 == E2 on every "
    "path. Python half: exec(serialize_python(E1)) must define classes equal to the parsed ones - decided on the realised text of each "
    "path (not exhaustive over integer holes; reported inconclusive unless refuted)."
)
ASSUMPTIONS = ["deref() inlines local $refs before re-parsing (json_ref_dict is not executed symbolically)"]
FUNCTIONS = ["statham.schema.parser:parse_element", "statham.schema.parser:_keyword_filter", "statham.serializers.json:serialize_json",
             "statham.serializers.json:_serialize_element", "statham.schema.elements.base:Element.__eq__", "statham.schema.property:_Property.__eq__"]


def strict_jeq(a, b):
    """jeq, but 1 and 1.0 also differ in type-sensitive positions? No: JSON documents - use jeq."""
    from vf.common import jeq

    return jeq(a, b)


def roundtrip_ok(S):
    from vf.common import parse_s, parse_element, serialize_json, deref, jcopy, jeq, is_json

    E1 = parse_s(S)
    J1 = serialize_json(E1)
    if not is_json(J1):
        return False
    try:
        E2 = parse_element(deref(jcopy(J1)))
    except KeyError:
        return False  # a $ref of the serialized document does not resolve
    J2 = serialize_json(E2)
    if not jeq(J1, J2):
        return False
    # a third trip must not move either
    E3 = parse_element(deref(jcopy(J2)))
    return jeq(serialize_json(E3), J2)


def python_roundtrip_ok(S):
    from vf.common import parse_s, serialize_python, exec_generated, classes_of, get_object_classes, ObjectMeta

    E1 = parse_s(S)
    ns = exec_generated(serialize_python(E1))
    if ns is None:
        return False
    gen = classes_of(ns)
    parsed = {c.__name__: c for c in get_object_classes(E1)}
    if set(gen) != set(parsed):
        return False
    for name in parsed:
        if not (gen[name] == parsed[name]):
            return False
    return True


def definitions_doc(same, w1, w2, rootobj, swap, m):
    o1 = {"type": "object", "title": "Foo", "properties": {"x": {"minimum": m}}}
    o2 = {"type": "object", "title": "Foo" if same else "Bar", "properties": {"y": {}}}
    d1 = {"type": "array", "items": o1} if w1 else o1
    d2 = {"type": "array", "items": o2} if w2 else o2
    S = {"definitions": ({"d1": d1, "d2": d2} if not swap else {"d2": d2, "d1": d1})}
    S.update({"type": "object", "title": "Root", "properties": {"p": {"type": "integer"}}} if rootobj else {"type": "string"})
    return S


def document_roundtrip_ok(S):
    """whole documents: parse() returns the root and the definitions; serialize_json(*elements) must be a fixpoint from the first trip on"""
    from vf.common import parse, serialize_json, deref, jcopy, jeq

    J1 = serialize_json(*parse(jcopy(S)))
    J2 = serialize_json(*parse(deref(jcopy(J1))))
    J3 = serialize_json(*parse(deref(jcopy(J2))))
    return jeq(J1, J2) and jeq(J2, J3)


def _demo_definition_titles_swap():
    return not document_roundtrip_ok(definitions_doc(True, True, False, False, False, 0))


TEMPLATES = {
    # name: (args, pre, setup+schema expr (must define S), tier)
    "num_flags": ("f1: bool, f2: bool, f3: bool, a: int, b: int, m: int, d: Union[int, bool, None]", ["m > 0"], """
S = {"type": "number"}
if f1: S["minimum"] = a
if f2: S["exclusiveMaximum"] = b
if f3: S["multipleOf"] = m
S["default"] = d
""", "quick"),
    "str_flags": ("f1: bool, f2: bool, n: int, k: int, s: str", ["n >= 0", "k >= 0", "len(s) <= 2"], """
S = {"type": "string", "pattern": "^a", "format": "uuid"}
if f1: S["minLength"] = n
if f2: S["maxLength"] = k
S["default"] = s
""", "quick"),
    "untyped_lit": ("c: Union[int, bool, None, str], e: Union[int, bool]", ["not isinstance(c, str) or len(c) <= 1"], 'S = {"const": c, "enum": [e, [e], {"k": c}], "default": [c]}', "quick"),
    "array": ("f1: bool, f2: bool, u: bool, n: int, m: int", ["n >= 0"], """
S = {"type": "array", "items": {"type": "integer", "minimum": m}, "uniqueItems": u}
if f1: S["minItems"] = n
if f2: S["contains"] = {"const": m}
""", "quick"),
    "tuple": ("a: bool, n: int, m: int", ["n >= 0"], 'S = {"items": [{"type": "integer"}, {"maximum": m}], "additionalItems": a, "maxItems": n}', "quick"),
    "tuple_schema": ("m: int", [], 'S = {"type": "array", "items": [{"type": "string"}, True, False], "additionalItems": {"minimum": m}}', "thorough"),
    "untyped_addl_items_no_tuple": ("a: bool", [], 'S = {"additionalItems": a, "additionalProperties": a}', "quick"),
    "object_untyped": ("f1: bool, f2: bool, a: bool, m: int, n: int", ["n >= 0"], """
S = {"properties": {"a b": {"type": "integer", "minimum": m, "default": 0}, "class": {"type": "string"}, "x": True, "y": False}, "required": ["a b", "q"], "additionalProperties": a}
if f1: S["patternProperties"] = {"^a": {"maximum": m}}
if f2: S["propertyNames"] = {"maxLength": n}
""", "quick"),
    "object_typed": ("f1: bool, f2: bool, a: bool, m: int, n: int, d: str", ["n >= 0", "len(d) <= 2"], """
S = {"type": "object", "title": "T", "description": d, "properties": {"a b": {"type": "integer", "minimum": m, "default": 0}, "class": {"type": "string"}}, "required": ["a b", "q"], "additionalProperties": a}
if f1: S["dependencies"] = {"q": ["class"], "class": {"minProperties": n}}
if f2: S["maxProperties"] = n
""", "quick"),
    "object_nested": ("m: int", [], 'S = {"type": "object", "title": "Outer", "properties": {"in": {"type": "object", "title": "Inner", "properties": {"x": {"minimum": m}}, "default": {"x": m}}, "arr": {"type": "array", "items": {"type": "object", "title": "Inner", "properties": {"x": {"minimum": m}}, "default": {"x": m}}}}}', "quick"),
    "object_addl_class": ("m: int", [], 'S = {"type": "object", "title": "Outer", "additionalProperties": {"type": "object", "title": "Val", "required": ["v"], "properties": {"v": {"maximum": m}}}, "patternProperties": {"^x": {"type": "object", "title": "Val2"}}}', "thorough"),
    "same_title_twice": ("m: int, n: int", [], 'S = {"type": "object", "title": "Outer", "properties": {"p": {"type": "object", "title": "In", "properties": {"x": {"minimum": m}}}, "q": {"type": "object", "title": "In", "properties": {"x": {"minimum": n}}}}}', "quick"),
    "typelist": ("m: int, d: Union[int, bool, None]", [], 'S = {"type": ["integer", "null", "string"], "minimum": m, "maxLength": 3, "default": d}', "quick"),
    "typelist_one": ("m: int, d: Union[int, bool, None]", [], 'S = {"type": ["integer"], "minimum": m, "default": d}', "quick"),
    "typelist_object": ("m: int", [], 'S = {"type": ["object", "array"], "title": "TO", "properties": {"a": {"minimum": m}}, "items": {"maximum": m}}', "thorough"),
    "anyof_sib": ("m: int, n: int, d: Union[int, bool, None]", [], 'S = {"type": "integer", "anyOf": [{"minimum": m}, {"maximum": n}], "default": d}', "quick"),
    "oneof_allof_not": ("m: int, n: int, d: Union[int, bool, None, str]", ["not isinstance(d, str) or len(d) <= 1"], 'S = {"oneOf": [{"minimum": m}, {"type": "string"}], "allOf": [{"maximum": n}], "not": {"const": d}, "default": d}', "quick"),
    "allof_single": ("m: int", [], 'S = {"allOf": [{"minimum": m}], "maxLength": 2}', "quick"),
    "anyof_trivial": ("m: int", [], 'S = {"anyOf": [True, {"minimum": m}], "oneOf": [False, {}]}', "thorough"),
    "comp_objects": ("m: int", [], 'S = {"anyOf": [{"type": "object", "title": "A", "properties": {"a": {"minimum": m}}}, {"type": "object", "title": "B", "required": ["b"]}], "default": {"a": m}}', "quick"),
    "object_with_comp": ("m: int, d: Union[int, None]", [], 'S = {"type": "object", "title": "OC", "properties": {"a": {"minimum": m}}, "oneOf": [{"required": ["a"]}, {"required": ["b"]}], "default": d}', "quick"),
    "nested_comp": ("m: int", [], 'S = {"not": {"anyOf": [{"allOf": [{"minimum": m}, {"type": "integer"}]}, {"not": {"type": "null"}}]}}', "thorough"),
    "bools": ("b: bool, c: bool", [], 'S = {"properties": {"p": b}, "items": c, "contains": b, "propertyNames": c, "not": b, "dependencies": {"a": c}}', "quick"),
    "empties": ("f: bool", [], 'S = {"default": [], "enum": [[], {}, "", 0, False, None], "const": {}, "required": [], "items": [], "properties": {}, "patternProperties": {}, "dependencies": {}, "additionalItems": f}', "quick"),
    "falsy_defaults_everywhere": ("f: bool", [], 'S = {"type": "object", "title": "FD", "default": {}, "properties": {"a": {"type": "array", "default": []}, "b": {"type": "string", "default": ""}, "c": {"type": ["boolean", "null"], "default": f}, "d": {"anyOf": [{"type": "integer"}, {"type": "null"}], "default": (None if f else 0)}, "e": {"type": "object", "title": "FE", "default": {}}}}', "quick"),
    "cats_and_dogs": ("m: int", [], 'S = {"type": "object", "title": "House", "properties": {"cats": {"type": "array", "items": {"type": "object", "title": "Cat", "properties": {"n": {"minimum": m}}}}, "dogs": {"type": "array", "items": {"type": "object", "title": "Dog", "properties": {"n": {"minimum": m}}}}, "l": {"type": "object", "title": "L", "properties": {"c": {"type": "object", "title": "LC"}}}, "r": {"type": "object", "title": "R", "properties": {"c": {"type": "object", "title": "RC"}}}}}', "quick"),
    "class_without_own_properties": ("m: int", [], 'S = {"type": "object", "title": "Settings", "additionalProperties": {"properties": {"a": {"type": "string"}}}, "dependencies": {"k": {"properties": {"b": {"minimum": m}}, "required": ["b"]}}}', "quick"),
    "class_without_own_properties_patterns": ("m: int", [], 'S = {"type": "array", "items": {"type": "object", "title": "Row", "patternProperties": {"^x": {"properties": {"a": {"maximum": m}}}}, "propertyNames": {"properties": {"zz": True}}}}', "quick"),
    "odd_property_names": ("m: int", [], 'S = {"type": "object", "title": "Odd", "properties": {"<=": {"type": "integer", "minimum": m}, "x->y": {}, "a\u00abb\u00bb": {}, "$": {}, "+1": {}, "\u2010": {}, "a.b": {}, "#": {"type": "null"}}, "required": ["<=", "x->y"]}', "quick"),
    "floats": ("m: int", [], 'S = {"type": "number", "minimum": 0.5, "maximum": m, "multipleOf": 0.25, "const": 1.0, "enum": [1, 1.0, True]}', "thorough"),
}


def harnesses(ctx) -> List[H]:
    hs: List[H] = []
    for name, (args, pre, setup, tier) in TEMPLATES.items():
        body = f"""
{setup.strip()}
return roundtrip_ok(S)
"""
        hs.append(mk(f"c06_json_{name}", args, pre, body, tier=tier, timeout=90, group="json", covers=" ".join(setup.split())))
        if '"title"' in setup:
            body = f"""
{setup.strip()}
return python_roundtrip_ok(S)
"""
            hs.append(mk(f"c06_python_{name}", args, pre, body, tier=tier, timeout=45, group="python", expect="unknown",
                         covers="exec(serialize_python(parse(S))) defines classes equal to the parsed ones (realised text)"))
    hs.append(mk("c06_python_description_pool", "i: int", ["0 <= i < 14"], "from vf.props.C07 import docstring_readback_ok, DESC_POOL\nreturn docstring_readback_ok(concretize_int(i, 0, len(DESC_POOL) - 1))", timeout=120, group="python",
                 covers="generated classes for descriptions with unusual whitespace equal the parsed ones (exec)"))
    excl = ctx.excl("C06-definition-titles-swap", "not (same and ((w1 and not w2 and not swap) or (w2 and not w1 and swap)))")
    hs.append(mk("c06_json_document_definitions", "same: bool, w1: bool, w2: bool, rootobj: bool, swap: bool, m: int", excl,
                 "return document_roundtrip_ok(definitions_doc(same, w1, w2, rootobj, swap, m))", timeout=90, group="json",
                 covers="whole documents through parse() / serialize_json(*elements): two definitions holding object schemas (same or different titles, directly or inside an array, either order), object or scalar root"))
    hs.append(mk("c06__reach", "m: int", [], 'return not (m == 7 and roundtrip_ok({"type": "integer", "minimum": m}))', kind="witness", timeout=20))
    return hs


DEMOS = {"C06-definition-titles-swap": _demo_definition_titles_swap}
