"""C11 - class declaration order is a complete topological order; cycles are refused (E1)."""
from typing import List

from vf.harness import H, mk

EXPLANATION = (
    "n object classes are created and linked according to a symbolic adjacency matrix (one bool per ordered pair, self-loops in the "
    "dedicated harnesses), each dependency hidden in the keyword position under test; a symbolic non-empty subset of the classes is "
    "passed to orderer() as roots. Spec: with reach = closure from the roots, if a reachable class reaches itself orderer must raise "
    "SchemaParseError; otherwise the output is exactly the reachable classes, each once, every class after all classes it depends on. "
    "A path that does not complete within the per-path timeout is not confirmed (termination). The graph dimension is solver-forked "
    "enumeration of a finite space (stated as such)."
)
ASSUMPTIONS = ["graphs of n<=3 (quick) / n=4 (thorough, partitioned) classes; one keyword position per harness plus mixed-position harnesses"]
FUNCTIONS = ["statham.serializers.orderer:orderer", "statham.serializers.orderer:get_object_classes", "statham.serializers.orderer:get_children",
             "statham.serializers.orderer:_get_path"]

POSITIONS = [
    "properties", "items", "tuple_items", "additionalItems", "contains", "patternProperties", "additionalProperties",
    "propertyNames", "dependencies", "anyOf", "oneOf", "allOf", "not",
    "cls_additionalProperties", "cls_patternProperties", "cls_dependencies", "cls_propertyNames", "nested_deep",
    "additionalItems_single_items", "additionalItems_no_items", "array_additionalItems_single", "contains_no_items", "additionalProperties_with_props",
]


def link(src, dst, pos, j):
    """make class `src` depend on class `dst` through keyword position `pos`"""
    from vf.common import Property, Element, Array, AnyOf, OneOf, AllOf, Not, Integer, NotPassed

    def put(el):
        src.properties[PROP_NAMES[j] if PROP_NAMES else "d%d" % j] = Property(el)

    if PROP_NAMES and pos.startswith("cls_"):
        # decoy member named like a keyword, on a class that also USES keywords
        src.properties[PROP_NAMES[j]] = Property(Integer())
    if pos == "properties":
        put(dst)
    elif pos == "items":
        put(Array(dst))
    elif pos == "tuple_items":
        put(Array([Integer(), dst]))
    elif pos == "additionalItems":
        put(Element(items=[Integer()], additionalItems=dst))
    elif pos == "contains":
        put(Element(contains=dst))
    elif pos == "additionalItems_single_items":
        put(Element(items=Integer(), additionalItems=dst))
    elif pos == "additionalItems_no_items":
        put(Element(additionalItems=dst))
    elif pos == "array_additionalItems_single":
        put(Array(Integer(), additionalItems=dst))
    elif pos == "contains_no_items":
        put(Array(Element(), contains=dst, additionalItems=False))
    elif pos == "additionalProperties_with_props":
        put(Element(properties={"k": Property(Integer())}, patternProperties={"^z": Integer()}, additionalProperties=dst))
    elif pos == "patternProperties":
        put(Element(patternProperties={"^x": dst}))
    elif pos == "additionalProperties":
        put(Element(additionalProperties=dst))
    elif pos == "propertyNames":
        put(Element(propertyNames=dst))
    elif pos == "dependencies":
        put(Element(dependencies={"k": dst, "l": ["k"]}))
    elif pos == "anyOf":
        put(AnyOf(Integer(), dst))
    elif pos == "oneOf":
        put(OneOf(dst, Integer()))
    elif pos == "allOf":
        put(AllOf(Element(), dst))
    elif pos == "not":
        put(Not(dst))
    elif pos == "nested_deep":
        put(Array(AnyOf(Not(Element(additionalProperties=Array([Integer(), dst]))), Integer())))
    elif pos == "cls_additionalProperties":
        cur = src.additionalProperties
        if cur is True:
            src.additionalProperties = dst
        else:
            src.additionalProperties = AllOf(cur, dst)
    elif pos == "cls_patternProperties":
        cur = src.patternProperties
        new = {} if isinstance(cur, NotPassed) else dict(cur)
        new["^p%d" % j] = dst
        src.patternProperties = new
    elif pos == "cls_dependencies":
        cur = src.dependencies
        new = {} if isinstance(cur, NotPassed) else dict(cur)
        new["k%d" % j] = dst
        src.dependencies = new
    elif pos == "cls_propertyNames":
        cur = src.propertyNames
        src.propertyNames = dst if isinstance(cur, NotPassed) else AnyOf(cur, dst)
    else:
        raise ValueError(pos)


NAMES = None  # optional naming scheme (default C0, C1, ...)
PROP_NAMES = None  # optional names for the properties that carry the dependencies (default d0, d1, ...)


def order_ok_propnames(n, edges, roots, pos_of, prop_names):
    """same spec with dependency-carrying properties named like keywords / attributes of the class"""
    global PROP_NAMES
    PROP_NAMES = list(prop_names)
    try:
        return order_ok(n, edges, roots, pos_of)
    finally:
        PROP_NAMES = None



def order_ok_named(n, edges, roots, pos_of, names):
    """same spec with class names that are substrings of each other"""
    global NAMES
    NAMES = list(names)
    try:
        return order_ok(n, edges, roots, pos_of)
    finally:
        NAMES = None


def order_ok(n, edges, roots, pos_of):
    """edges: dict (i, j) -> bool ; roots: list of bool ; pos_of(i, j) -> position name.
    The graph is the only symbolic input: each flag is realised (solver-forked), after which the
    class graph is concrete and orderer() + spec run untraced (tracing concrete code only costs time)."""
    from vf.common import realize, _tracing

    edges = {k: bool(realize(bool(b))) for k, b in edges.items()}
    roots = [bool(realize(bool(r))) for r in roots]
    if _tracing():
        from crosshair.tracers import NoTracing

        from vf.prelude import real_hash

        with NoTracing(), real_hash():
            return _order_ok(n, edges, roots, pos_of)
    return _order_ok(n, edges, roots, pos_of)


def _order_ok(n, edges, roots, pos_of):
    from vf.common import Object, orderer, SchemaParseError

    names = NAMES or ["C%d" % i for i in range(n)]
    classes = [Object.inline(names[i]) for i in range(n)]
    adj = [[bool(edges.get((i, j), False)) for j in range(n)] for i in range(n)]
    for i in range(n):
        for j in range(n):
            if adj[i][j]:
                link(classes[i], classes[j], pos_of(i, j), j)
    rs = [classes[i] for i in range(n) if roots[i]]
    # reachability (transitive closure by iteration)
    reach_from = [[adj[i][j] for j in range(n)] for i in range(n)]
    for k in range(n):
        for i in range(n):
            for j in range(n):
                if reach_from[i][k] and reach_from[k][j]:
                    reach_from[i][j] = True
    reach = [bool(roots[i]) for i in range(n)]
    for r in range(n):
        if roots[r]:
            for j in range(n):
                if reach_from[r][j]:
                    reach[j] = True
    cyclic = any(reach[i] and reach_from[i][i] for i in range(n))
    try:
        out = list(orderer(*rs))
    except SchemaParseError:
        return cyclic
    if cyclic:
        return False
    got = [c.__name__ for c in out]
    expected = [names[i] for i in range(n) if reach[i]]
    if len(got) != len(expected):
        return False
    for e in expected:
        if got.count(e) != 1:
            return False
    for k, c in enumerate(out):
        if c is not classes[names.index(c.__name__)]:
            return False
    index = {name: k for k, name in enumerate(got)}
    for i in range(n):
        if not reach[i]:
            continue
        for j in range(n):
            if adj[i][j] and not index[names[j]] < index[names[i]]:
                return False
    return True


def some_order(n, edges, roots, pos, want_cycle):
    """witness helper"""
    from vf.common import Object, orderer, SchemaParseError

    classes = [Object.inline("C%d" % i) for i in range(n)]
    for (i, j), b in edges.items():
        if b:
            link(classes[i], classes[j], pos, j)
    try:
        out = list(orderer(*[classes[i] for i in range(n) if roots[i]]))
    except SchemaParseError:
        return want_cycle
    return (not want_cycle) and len(out) == n


def _edge_args(pairs):
    return ", ".join("e%d%d: bool" % p for p in pairs)


def _edge_dict(pairs, fixed=None):
    items = ["(%d, %d): e%d%d" % (i, j, i, j) for (i, j) in pairs]
    for (p, b) in (fixed or {}).items():
        items.append("(%d, %d): %r" % (p[0], p[1], b))
    return "{" + ", ".join(items) + "}"


def harnesses(ctx) -> List[H]:
    hs: List[H] = []
    off3 = [(i, j) for i in range(3) for j in range(3) if i != j]
    quick_pos = {"properties", "items", "additionalProperties", "anyOf", "not", "cls_patternProperties", "dependencies", "additionalItems_single_items", "additionalItems_no_items", "array_additionalItems_single"}
    for pos in POSITIONS:
        tier = "quick" if pos in quick_pos else "thorough"
        # n=3, all off-diagonal edges symbolic, roots symbolic (non-empty)
        hs.append(mk(f"c11_n3_{pos}", _edge_args(off3) + ", r0: bool, r1: bool, r2: bool", ["r0 or r1 or r2"],
                     f"return order_ok(3, {_edge_dict(off3)}, [r0, r1, r2], lambda i, j: {pos!r})", tier=tier, timeout=400, group="n3",
                     covers=f"3 classes, 64 graphs x 7 root subsets, dependency under {pos}"))
        # n=2 with self-loops
        all2 = [(i, j) for i in range(2) for j in range(2)]
        hs.append(mk(f"c11_n2_selfloops_{pos}", _edge_args(all2) + ", r0: bool, r1: bool", ["r0 or r1"],
                     f"return order_ok(2, {_edge_dict(all2)}, [r0, r1], lambda i, j: {pos!r})", tier="quick", timeout=100, group="selfloop",
                     covers=f"2 classes incl. self-loops (16 graphs x 3 root subsets), dependency under {pos}"))
    # class names that are substrings / prefixes of each other
    for scheme, nm in (("prefix", ["Item", "ItemList", "ItemListView"]), ("suffix", ["Group", "TagGroup", "Tag"]), ("digits", ["N1", "N10", "N100"])):
        for pos in ("properties", "items", "cls_dependencies"):
            hs.append(mk(f"c11_n3_names_{scheme}_{pos}", _edge_args(off3) + ", r0: bool, r1: bool, r2: bool", ["r0 or r1 or r2"],
                         f"return order_ok_named(3, {_edge_dict(off3)}, [r0, r1, r2], lambda i, j: {pos!r}, {nm!r})", tier="quick" if pos == "properties" else "thorough", timeout=400, group="names",
                         covers=f"3 classes named {nm} (names containing each other), dependency under {pos}"))
    # properties named like the keywords / attributes the traversal itself looks up on a class
    for scheme, pn in (("keywords", ["properties", "additionalProperties", "items"]), ("keywords2", ["patternProperties", "dependencies", "propertyNames"]), ("attrs", ["default", "__name__", "elements"])):
        for pos in ("properties", "cls_additionalProperties", "cls_dependencies"):
            hs.append(mk(f"c11_n3_propnames_{scheme}_{pos}", _edge_args(off3) + ", r0: bool, r1: bool, r2: bool", ["r0 or r1 or r2"],
                         f"return order_ok_propnames(3, {_edge_dict(off3)}, [r0, r1, r2], lambda i, j: {pos!r}, {pn!r})", tier="quick" if scheme == "keywords" else "thorough", timeout=400, group="names",
                         covers=f"3 classes whose dependency-carrying properties are named {pn}, further dependency under {pos}"))
    # mixed positions on n=3: position chosen per edge
    mix = "lambda i, j: %r[(2 * i + j) %% %d]" % (POSITIONS, len(POSITIONS))
    hs.append(mk("c11_n3_mixed_a", _edge_args(off3) + ", r0: bool, r1: bool, r2: bool", ["r0 or r1 or r2"],
                 f"return order_ok(3, {_edge_dict(off3)}, [r0, r1, r2], {mix})", timeout=200, group="n3", covers="positions mixed per edge"))
    mix2 = "lambda i, j: %r[(5 * i + 3 * j + 1) %% %d]" % (POSITIONS, len(POSITIONS))
    hs.append(mk("c11_n3_mixed_b", _edge_args(off3) + ", r0: bool, r1: bool, r2: bool", ["r0 or r1 or r2"],
                 f"return order_ok(3, {_edge_dict(off3)}, [r0, r1, r2], {mix2})", tier="thorough", timeout=200, group="n3", covers="positions mixed per edge (second assignment)"))
    # n=3 with self loops, root fixed to C0
    all3 = [(i, j) for i in range(3) for j in range(3)]
    hs.append(mk("c11_n3_selfloops_properties", _edge_args(all3), [],
                 f"return order_ok(3, {_edge_dict(all3)}, [True, False, False], lambda i, j: 'properties')", tier="thorough", timeout=400, group="selfloop",
                 covers="3 classes incl. self-loops (512 graphs), single root"))
    # n=4: 12 off-diagonal edges; 4 fixed by the partition index, 8 symbolic, 3 symbolic roots
    off4 = [(i, j) for i in range(4) for j in range(4) if i != j]
    sym = off4[:8]
    fix = off4[8:]
    for pos in ("properties", "items", "cls_additionalProperties", "allOf", "nested_deep", "dependencies"):
        for part in range(16):
            fixed = {p: bool((part >> k) & 1) for k, p in enumerate(fix)}
            hs.append(mk(f"c11_n4_{pos}_p{part:02d}", _edge_args(sym) + ", r1: bool, r2: bool, r3: bool", [],
                         f"return order_ok(4, {_edge_dict(sym, fixed)}, [True, r1, r2, r3], lambda i, j: {pos!r})", tier="thorough", timeout=600, group="n4",
                         covers=f"4 classes, partition {part}/16 of the 4096 graphs without self-loops x 8 root subsets containing C0, dependency under {pos}"))
    # n=4 with self-loops on a chain-closed family: edges i->i+1 fixed, the rest symbolic
    all4 = [(i, j) for i in range(4) for j in range(4)]
    symA = [p for p in all4 if p not in ((0, 1), (1, 2), (2, 3))][:10]
    hs.append(mk("c11_n4_chain_selfloops", _edge_args(symA), [],
                 f"return order_ok(4, {_edge_dict(symA, {(0, 1): True, (1, 2): True, (2, 3): True})}, [True, False, False, False], lambda i, j: 'properties')", tier="thorough", timeout=600, group="n4",
                 covers="4 classes on a fixed chain C0->C1->C2->C3 plus 10 symbolic further edges incl. self-loops"))
    # reachability twins
    hs.append(mk("c11__acyclic", _edge_args(off3), [], f"return not some_order(3, {_edge_dict(off3)}, [True, True, True], 'items', False)", kind="witness", timeout=30))
    hs.append(mk("c11__cyclic", _edge_args(off3), [], f"return not some_order(3, {_edge_dict(off3)}, [True, False, False], 'items', True)", kind="witness", timeout=30))
    return hs


DEMOS = {}
