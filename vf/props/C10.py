"""C10 - only validation and schema-parse errors escape; no crash on any JSON input (E1 + E2)."""
import json
import os
from typing import List

from vf.harness import H, mk

EXPLANATION = (
    "Validation totality (E1): keyword groups with symbolic parameters are called on values of EVERY JSON type (unbounded ints, any "
    "code point incl. surrogates/NUL, unhashable items under uniqueItems, mixed-type enum, nesting depth built from a symbolic n); "
    "the postcondition is 'returned, or raised ValidationError/TypeError' - Confirmed also means every path terminated. A second set "
    "runs with error-message formatting UN-stubbed. Arithmetic (E2): the current source of MultipleOf._validate is translated from "
    "its AST to SMT (ints as Int, floats as IEEE doubles, CPython exception semantics) and z3 is asked, per operand-kind combination, "
    "whether any outcome other than return/ValidationError is reachable over all finite doubles, all ints, multipleOf > 0. Parse "
    "totality (E1): metaschema-valid templates with symbolic names/titles/keyword values must parse or raise SchemaParseError."
)
ASSUMPTIONS = [
    "E2 models CPython int/float arithmetic as documented in vf/e2.py; validated on every run against the real function on 24 concrete cases",
    "dateutil / uuid run concretely on realised strings (format harnesses cannot exhaust; they can refute)",
    "patterns are from a pool valid in Python's re dialect (invalid patterns are excluded by the property)",
]
FUNCTIONS = ["statham.schema.validation.base:Validator.__call__", "statham.schema.validation.numeric:MultipleOf._validate",
             "statham.schema.validation.array:UniqueItems._validate", "statham.schema.elements.composition:_attempt_schema",
             "statham.schema.parser:parse_element", "statham.schema.helpers:reraise", "statham.schema.exceptions:ValidationError.from_validator"]

ANY = "Union[int, bool, str, None, List[Union[int, str]], Dict[str, int]]"
ANYPRE = ["not isinstance(v, str) or len(v) <= 3", "not isinstance(v, list) or len(v) <= 2", "not isinstance(v, dict) or (len(v) <= 2 and all(k in ('a', 'b', 'c') for k in v))"]


def total(el, v):
    from vf.common import outcome_kind

    return outcome_kind(el, v) in ("ok", "ValidationError", "TypeError")


def parse_total(S):
    from vf.common import parse_element, Element, SchemaParseError, jcopy

    try:
        r = parse_element(jcopy(S))
    except SchemaParseError:
        return True
    except Exception:  # noqa
        return False
    return isinstance(r, Element)


def doc_total(S):
    from vf.common import parse, Element, SchemaParseError, jcopy

    try:
        r = parse(jcopy(S))
    except SchemaParseError:
        return True
    except Exception:  # noqa
        return False
    return all(isinstance(e, Element) for e in r)


def revalidate_total(i, v):
    """the RESULT of an accepted validation (anonymous-object dicts, model instances, converted floats) is itself passed to
    elements - the same one again and stricter ones, as in a validation pipeline: still only returns / rejections"""
    from vf.common import (verdict, jcopy, Element, Array, Object, Property, Integer, Number, AnyOf, OneOf, AllOf, Not, parse_s)

    M = Object.inline("M", properties={"a": Property(Number())})
    firsts = [
        Array(Element()),
        parse_s({"items": {"properties": {"a": {"type": "number"}}}}),
        Array(M),
        parse_s({"items": {"anyOf": [{"type": "object", "title": "N", "properties": {"a": {"type": "integer"}}}, {"type": "null"}]}}),
        Element(additionalItems=False, items=[Element(), Element(properties={"b": Property(Integer())})]),
    ]
    first = firsts[i]
    ok, r = verdict(first, jcopy(v))
    if not ok:
        return True
    seconds = [
        first,
        Element(uniqueItems=True),
        Array(Element(), uniqueItems=True, contains=Element(const={"a": 1})),
        Element(enum=[[{"a": 1}], [], [{}]], items=Element(enum=[{"a": 1}, {}, {"b": 0}])),
        Array(M, uniqueItems=True),
        Array(AnyOf(M, Integer()), minItems=1),
        AllOf(Element(items=OneOf(Element(required=["a"]), Element(maxProperties=0))), Not(Element(const=[{"a": 0}]))),
        Element(items=Element(propertyNames=Element(maxLength=1), dependencies={"a": ["b"]}, patternProperties={"^a": Number(multipleOf=2)}, minProperties=1)),
    ]
    for el2 in seconds:
        if not total(el2, r):
            return False
    return True


def nest(n, leaf):
    x = leaf
    for _ in range(n):
        x = [x]
    return x


def nest_schema(n, leaf):
    s = leaf
    for _ in range(n):
        s = {"type": "array", "items": s, "uniqueItems": True}
    return s


GROUPS = {
    "numeric": ("a: int, b: int, m: int", ["m > 0"], '{"minimum": a, "maximum": b, "exclusiveMinimum": b, "exclusiveMaximum": a, "multipleOf": m}'),
    "numeric_typed": ("a: int, m: int", ["m > 0"], '{"type": ["integer", "number"], "minimum": a, "multipleOf": m, "const": a}'),
    "string": ("n: int, k: int", ["n >= 0", "k >= 0"], '{"minLength": n, "maxLength": k, "pattern": "^a.c$"}'),
    "array": ("n: int, k: int", ["n >= 0", "k >= 0"], '{"minItems": n, "maxItems": k}'),
    "array_unique": ("u: bool", [], '{"uniqueItems": u}'),
    "array_items": ("n: int", ["n >= 0"], '{"items": [{"type": "integer"}, {"minLength": n}], "additionalItems": False, "contains": {"const": n}}'),
    "object": ("n: int, k: int", ["n >= 0", "k >= 0"], '{"minProperties": n, "maxProperties": k, "required": ["a"], "properties": {"a": {"minimum": n}, "a b": {"type": "string"}}, "patternProperties": {"^b": {"maximum": k}}, "additionalProperties": False, "propertyNames": {"maxLength": n}, "dependencies": {"a": ["b"], "b": {"minProperties": k}}}'),
    "object_typed": ("n: int", ["n >= 0"], '{"type": "object", "title": "T", "required": ["a", "zz"], "properties": {"a": {"minimum": n, "default": "not a number"}}, "additionalProperties": {"type": "integer"}, "maxProperties": n}'),
    "literals": ("c: Union[int, bool, str, None]", ["not isinstance(c, str) or len(c) <= 1"], '{"enum": [c, 1, "a", None, [1, [True]], {"a": {"b": 1.5}}], "not": {"const": c}}'),
    "composition": ("a: int, n: int", ["n >= 0"], '{"anyOf": [{"minimum": a}, {"type": "string", "maxLength": n}], "oneOf": [{"type": "integer"}, {"type": "array", "maxItems": n}, {"required": ["a"]}], "allOf": [{"not": {"const": a}}], "type": ["integer", "string", "array", "object"], "title": "TL"}'),
    "nothing": ("f: bool", [], "f"),
}

PARSE_TEMPLATES = {
    "names": ("s: str", ["len(s) <= 1"], '{"type": "object", "title": "T" + s, "properties": {s: {"type": "integer"}, "x": True}, "required": [s, "y"], "dependencies": {s: [s], "q": {"required": [s]}}, "description": s}'),
    "title_only": ("s: str", ["len(s) <= 2"], '{"type": "object", "title": s}'),
    "autotitle": ("s: str", ["len(s) <= 1"], '{"type": "object", "_x_autotitle": s, "properties": {"a": {"type": "object", "_x_autotitle": s + "Item"}}}'),
    "untyped_names": ("s: str, t: str", ["len(s) <= 1", "len(t) <= 1"], '{"properties": {s: {}, t: False}, "required": [t]}'),
    "type_value": ("i: int, j: int", ["0 <= i < 7", "0 <= j < 7"], '{"type": [TYPES[i], TYPES[j]] if i != j else TYPES[i], "title": "X", "minimum": i, "items": [], "properties": {}, "required": []}'),
    "empty_containers": ("f: bool", [], '{"items": [], "properties": {}, "patternProperties": {}, "dependencies": {}, "required": [], "definitions": {}, "additionalItems": f, "additionalProperties": f}'),
    "bool_subschemas": ("a: bool, b: bool", [], '{"items": [a, b], "additionalItems": b, "contains": a, "properties": {"p": b}, "patternProperties": {"^x": a}, "propertyNames": b, "dependencies": {"k": a}, "anyOf": [a, b], "oneOf": [b], "allOf": [a], "not": b}'),
    "numbers": ("m: int, n: int", ["m > 0", "n >= 0"], '{"type": "number", "multipleOf": m, "minimum": -m, "maximum": 2.5, "exclusiveMinimum": n, "minLength": n, "maxItems": n, "minProperties": n, "default": -0.0, "const": 1e308, "enum": [10 ** 400, n]}'),
    "literal_shapes": ("d: Union[int, bool, str, None, List[int], Dict[str, int]]", ["not isinstance(d, str) or len(d) <= 2", "not isinstance(d, list) or len(d) <= 2", "not isinstance(d, dict) or (len(d) <= 1 and all(k in ('a', '_x_autotitle') for k in d))"], '{"default": d, "const": [d, {"_x_autotitle": d}], "enum": [d], "anyOf": [{"default": d}, {"type": "null"}]}'),
    "object_in_positions": ("s: str", ["len(s) <= 1"], '{"type": "array", "items": [{"type": "object", "title": s + "A"}], "additionalItems": {"type": "object", "title": s + "B", "additionalProperties": {"type": "object", "title": s + "C"}}, "contains": {"type": ["object", "null"], "title": s + "D"}}'),
    "ignored_keywords": ("s: str", ["len(s) <= 1"], '{"$id": s, "$schema": s, "$comment": s, "examples": [s], "readOnly": True, "contentMediaType": s, "format": s, s: s}'),
    "malformed_values_ignored": ("f: bool", [], '{"properties": {"a": {"type": "integer"}}, "patternProperties": {"^a": f}, "dependencies": {"a": ["b"], "b": f}}'),
}
TYPES = ["null", "boolean", "integer", "number", "string", "array", "object"]


def e2_replay(v, m):
    """replay of an E2 counterexample on the real validator"""
    from vf.e2 import concrete_outcome

    return concrete_outcome(v, m) in ("return", "raise:ValidationError")


PATTERN_POOL = ["(?<=a)b", "(?<!a)b", "(?=a)a", "(?!b).", "(?P<n>a)(?P=n)", "(?i)A", "[\\w-]+", "a{2,3}", "\\d+", "^\\s*$", "(a|b)*c", "\\u0041", "[^\\W\\d_]", "a*?b", "(?:ab)+", "\\bword\\b", "[a-c&&]", "\\.", "^$", "a|"]
EXTRA_KEYWORDS = ["self", "args", "kwargs", "cls", "element", "elements", "mode", "additional", "name", "value", "property_", "schema", "state", "title", "$id", "x-extension", "readOnly"]


FORMAT_CHARS = ["{", "}", "{0}", "{x}", "{}", "{{", "%s", "%(a)s", "\\", "{minimum}", "{0!r}", "a{b"]


def message_chars_ok(i):
    """violations whose messages contain format-looking text (REAL message formatting): only validation errors"""
    from vf.common import parse_s

    c = FORMAT_CHARS[i]
    cases = [
        ({"required": [c]}, {}),
        ({"properties": {c: {"type": "integer"}}, "additionalProperties": False}, {c: "x", "other": 1}),
        ({"dependencies": {c: ["b" + c], "a": {"properties": {c: {"type": "string"}}, "required": [c]}}}, {c: 1, "a": 2}),
        ({"dependencies": {"a": {"properties": {"b": {"type": "string"}}, "required": ["b"]}}}, {"a": 1}),
        ({"patternProperties": {"^a": {"const": c}}, "propertyNames": {"const": c}}, {"ab": 1}),
        ({"enum": [c, {c: c}], "const": {c: [c]}}, c + "x"),
        ({"type": "string", "pattern": "^z", "format": "uuid"}, c),
        ({"type": "object", "title": "T" , "properties": {c: {"type": "integer", "minimum": 5}}, "required": [c]}, {c: 1}),
        ({"type": "object", "title": "T", "description": c, "required": ["x"]}, {c: c}),
        ({"items": [{"const": c}], "additionalItems": False, "contains": {"const": {c: 1}}}, [c + "1", c]),
        ({"oneOf": [{"const": c}, {"enum": [c]}], "anyOf": [{"required": [c]}], "not": {"const": c}}, c),
        ({"oneOf": [{"const": c}, {"enum": [c]}]}, c),
    ]
    for S, v in cases:
        if not parse_total(S):
            return False
        if not total(parse_s(S), v):
            return False
    return True


NASTY_STRINGS = ["a{99999999999}", "x{1,99999999999999999999}", "(" * 200, "\\", "[", "9" * 400, "%", "(?P<", "1e400", "-" * 50, "T" * 50, "\x00", "",
                 "12:" + "9" * 30, "{" * 30, "\ud800", "0" * 33, "2020-01-01T00:00:00." + "1" * 40 + "Z", "urn:uuid:" + "f" * 32, "a" * 5000, "\\" * 101, "[[[[[[[[", "(?i)" * 30, "\\N{", "\\u12"]


def all_formats_total(i):
    """EVERY format name registered in the process-wide checker (built-ins included, whatever they are) on a nasty string"""
    from statham.schema.validation.format import format_checker
    from vf.common import String, Element

    s = NASTY_STRINGS[i]
    for name in list(format_checker._callable_register):
        if not total(String(format=name), s) or not total(Element(format=name, minLength=0), s):
            return False
    return True


NAME_POOL = ["", "\x00", "\x01", "\x7f", "\x85", "\ue000", "\uffff", "\u0378", "\ud800", "a\x00b", " ", "\t", "\xa0", "\U0001d518", "\U0010ffff", "$", "-", "_", "1", "\u00b2", "class", "__dict__", "a b", "\u2028", "\u200d"]


def parse_ok(S):
    from vf.common import parse_element, jcopy

    try:
        parse_element(jcopy(S))
        return True
    except Exception:  # noqa
        return False


def e2_replay_number(v):
    from vf.e2 import number_construct_concrete

    return number_construct_concrete(v) in ("return", "raise:ValidationError")


SPECIAL_NAMES = sorted(set(dir(type("_Plain", (), {})())) | {
    "__slots__", "__annotations__", "__qualname__", "__name__", "__mro__", "__bases__", "__orig_bases__", "__properties__", "__items__",
    "_dict", "properties", "default", "validators", "inline", "python", "required", "additionalProperties", "annotation", "type_validator",
    "description", "const", "enum", "self", "cls", "value", "_property", "mro", "__call__", "__getitem__", "__iter__", "__len__", "__contains__"})


def special_name_ok(i, x, typed):
    """a property with a Python-special name: parsing and validating never crash; the member survives"""
    from vf.common import parse_s, outcome_kind

    name = SPECIAL_NAMES[i % len(SPECIAL_NAMES)]
    S = {"properties": {name: {"type": "integer", "minimum": 0}}, "required": [name]}
    if typed:
        S.update({"type": "object", "title": "T"})
    if not parse_total(S):
        return False
    el = parse_s(S)
    for v in ({name: x}, {name: {}}, {}):
        if outcome_kind(el, v) not in ("ok", "ValidationError", "TypeError"):
            return False
    if x >= 0:
        try:
            r = el({name: x})
        except Exception:  # noqa
            return False
        py = [k for k, p in el.properties.items() if p.source == name]
        if len(py) != 1:
            return False
        got = r[py[0]]
        if got != x:
            return False
        try:
            repr(r)
        except Exception:  # noqa
            return False
    return True


MEMBER_NAMES = ["", " ", "\x00", "0", "-", "a b", "__class__", "_dict", "name", "None", "\ud800", "\U0001d518", "{0}", "%s", "a" * 70]


def undeclared_member_ok(i, how, typed, x):
    from vf.common import realize

    from vf.common import _tracing

    x = -1 if realize(x < 0) else 1  # messages are REAL here (un-stubbed): keep the value concrete, only its sign matters
    typed = bool(realize(typed))
    if _tracing():  # every input is decided: run the concrete case untraced
        from crosshair.tracers import NoTracing
        from vf.prelude import real_hash

        with NoTracing(), real_hash():
            return _undeclared_member_ok(i, how, typed, x)
    return _undeclared_member_ok(i, how, typed, x)


def _undeclared_member_ok(i, how, typed, x):
    """members the schema does not declare, with unusual names (the empty string first), handled by a schema-valued
    additionalProperties / a patternProperties regex / propertyNames / dependencies: failing and passing values never crash"""
    from vf.common import parse_s

    name = MEMBER_NAMES[i]
    sub = [{"type": "integer", "minimum": 0}, {"type": "string", "minLength": 2}, {"anyOf": [{"type": "null"}, {"maxItems": 0, "type": "array"}]},
           {"oneOf": [{"type": "integer"}, {"minimum": 0}]}, {"allOf": [{"type": "integer"}, {"not": {"const": 0}}]}][how % 5]
    S = {"properties": {"known": {"type": "integer"}}}
    if how < 5:
        S["additionalProperties"] = sub
    elif how < 10:
        S["patternProperties"] = {"": sub}
    elif how < 12:
        S["propertyNames"] = {"minLength": 1, "pattern": "^[a-z]"}
        S["additionalProperties"] = how == 10
    else:
        S["dependencies"] = {name: sub if how == 12 else ["known"]}
    if typed:
        S.update({"type": "object", "title": "T"})
    if not parse_total(S):
        return False
    el = parse_s(S)
    for v in ({name: x}, {name: "s"}, {name: None}, {name: [x]}, {name: {name: x}}, {name: x, "known": x}, {name: "long enough"}):
        if not total(el, v):
            return False
    return True


def harnesses(ctx) -> List[H]:
    hs: List[H] = []
    for name, (hargs, pre, S) in GROUPS.items():
        hs.append(mk(f"c10_total_{name}", f"{hargs}, v: {ANY}", pre + ANYPRE, f"return total(parse_s({S}), v)", timeout=200 if name != "array_unique" else 900, group="validation", expect="unknown" if name == "array_unique" else "confirmed",
                     tier="thorough" if name == "array_unique" else "quick", covers=f"{S} on values of every JSON type"))
        hs.append(mk(f"c10_total_msg_{name}", f"{hargs}, v: {ANY}", pre + ANYPRE, f"return total(parse_s({S}), v)", timeout=120, group="validation-messages",
                     message_stub=False, expect="unknown", tier="thorough",
                     covers="same with real error-message formatting (repr of symbolic values realises them: can refute, rarely exhausts)"))
    hs.append(mk("c10_total__reach_reject", f"a: int, b: int, m: int, v: {ANY}", ["m > 0"] + ANYPRE,
                 "return outcome_kind(parse_s({'minimum': a, 'multipleOf': m}), v) != 'ValidationError'", kind="witness", timeout=30, group="validation"))
    # unusual unicode
    hs.append(mk("c10_unicode_values", "n: int, v: str, c: str", ["n >= 0", "len(v) <= 2", "len(c) <= 1"],
                 'return total(parse_s({"type": "string", "minLength": n, "pattern": "^.a", "const": c, "enum": [c, v]}), v)',
                 timeout=300, group="unicode", covers="any code points (surrogates, NUL) as values and literals"))
    hs.append(mk("c10_unicode_keys", "n: int, v: str, c: str", ["n >= 0", "len(v) <= 1", "len(c) <= 1"],
                 'return total(parse_s({"propertyNames": {"pattern": "^a", "maxLength": n}, "required": [c], "properties": {c: {"const": v}}}), {v: c})',
                 timeout=300, group="unicode", expect="unknown", tier="thorough", covers="any code points as member names, required names and property names (names are realised by dict hashing)"))
    hs.append(mk("c10_format_uuid", "v: str", ["len(v) <= 3"], 'return total(parse_s({"type": "string", "format": "uuid"}), v)', timeout=100, group="format", expect="unknown", tier="thorough"))
    hs.append(mk("c10_format_datetime", "v: str", ["len(v) <= 3"], 'return total(parse_s({"format": "date-time"}), v)', timeout=100, group="format", expect="unknown", tier="thorough"))
    hs.append(mk("c10_format_runlength", "n: int, i: int", ["0 <= n <= 64", "0 <= i < 8"],
                 'c = ("9", "a", "-", ":", "T", "+", ".", " ")[i]\nreturn total(parse_s({"format": "date-time"}), c * n) and total(parse_s({"format": "uuid"}), c * n) and total(parse_s({"format": "date-time"}), "2020-01-01T00:00:00." + c * n)',
                 timeout=400, group="format", covers="run-length dimension: repeated characters up to 64 (reaches the >= 20-digit dateutil overflow)"))
    hs.append(mk("c10_format_runlength_prefixed_quick", "p: int, n: int", ["0 <= p < 3", "0 <= n <= 32"],
                 'pre = ("12:", "12:30:", "2020-01-01T00:00:")[p]\nreturn total(parse_s({"format": "date-time"}), pre + "9" * n)',
                 timeout=200, group="format", covers="run lengths of '9' up to 32 after three time-like prefixes"))
    hs.append(mk("c10_format_runlength_prefixed", "p: int, n: int, i: int", ["0 <= p < 8", "0 <= n <= 32", "0 <= i < 2"],
                 'pre = ("12:", "12:30:", "2020-01-01T00:00:", "1-", "T", "2020-", "1e", "0.")[p]\nc = ("9", ".")[i]\nreturn total(parse_s({"format": "date-time"}), pre + c * n) and total(parse_s({"format": "uuid"}), pre + c * n)',
                 timeout=600, group="format", tier="thorough", covers="run lengths up to 32 of '9' / '.' after 8 date/time-like prefixes"))
    core = [SPECIAL_NAMES.index(n) for n in ("__dict__", "__weakref__", "__module__", "__slots__", "__class__", "__doc__", "__init__", "_dict", "properties", "default", "validators", "__annotations__")]
    hs.append(mk("c10_special_property_names_core", "j: int, pos: bool", [f"0 <= j < {len(core)}"], f"return special_name_ok({core!r}[concretize_int(j, 0, {len(core) - 1})], (5 if pos else -1), True)", timeout=300, group="names",
                 covers="the 12 most hazardous special names as property names of a model class"))
    for typed in (True, False):
      hs.append(mk(f"c10_special_property_names_{'typed' if typed else 'untyped'}", "i: int, pos: bool", [f"0 <= i < {len(SPECIAL_NAMES)}"], f"return special_name_ok(concretize_digits(i, 2), (5 if pos else -1), {typed})", timeout=900, group="names", tier="thorough",
                 covers="property names that are Python-special attribute names (dunder names of plain instances, names used by the model machinery)"))
    # unhashable / nested items
    hs.append(mk("c10_unique_scalars", "u: bool, v: Union[int, str, List[Union[int, bool]]]", ["not isinstance(v, str) or len(v) <= 1", "not isinstance(v, list) or len(v) <= 3"],
                 'return total(parse_s({"uniqueItems": u}), v)', timeout=200, group="arrays"))
    hs.append(mk("c10_unique_unhashable_lists", "v: List[List[Union[int, bool]]]", ["len(v) <= 2", "all(len(x) <= 2 for x in v)"],
                 'return total(parse_s({"uniqueItems": True}), v) and total(parse_s({"uniqueItems": True}), [v, 1, v])', timeout=300, group="arrays"))
    hs.append(mk("c10_unique_unhashable_dicts", "w: List[Dict[str, int]]", ["len(w) <= 2", "all(len(d) <= 1 and all(k in ('a', 'b') for k in d) for d in w)"],
                 'return total(parse_s({"uniqueItems": True, "contains": {"required": ["a"]}}), w)', timeout=300, group="arrays"))
    hs.append(mk("c10_revalidate_results", "i: int, w: List[Dict[str, int]]", ["0 <= i < 5", "len(w) <= 2", "all(len(d) <= 1 and all(k in ('a', 'b') for k in d) for d in w)"],
                 "return revalidate_total(concretize_int(i, 0, 4), w)", timeout=400, group="validation",
                 covers="two-step pipelines: the result of an accepted call (anonymous objects / model instances / floats inside arrays) validated again by the same and by 7 stricter elements (uniqueItems, const/enum, items/contains, compositions, object keywords)"))
    hs.append(mk("c10_undeclared_member_names", "i: int, how: int, typed: bool, x: int", [f"0 <= i < {len(MEMBER_NAMES)}", "0 <= how < 14"],
                 f"return undeclared_member_ok(concretize_int(i, 0, {len(MEMBER_NAMES) - 1}), concretize_int(how, 0, 13), typed, x)", timeout=600, group="names", message_stub=False,
                 covers=f"{len(MEMBER_NAMES)} unusual member names (empty string, blanks, NUL, dunder, surrogate, format characters, long) x 14 ways an undeclared member is judged (additionalProperties / patternProperties sub-schemas of 5 kinds, propertyNames, dependencies) x typed/untyped x 7 value shapes"))
    hs.append(mk("c10_deep_nesting", "n: int, x: Union[int, bool, None]", ["0 <= n <= 40"],
                 'return total(parse_s({"uniqueItems": True, "const": nest(3, x)}), nest(n, x)) and total(parse_s(nest_schema(n, {"type": "integer"})), nest(n, x)) and total(parse_s({"enum": [nest(n, 1)]}), nest(n, x))',
                 timeout=400, group="arrays", covers="nesting depth n <= 40 built from a symbolic n"))
    hs.append(mk("c10_big_ints", "v: int, a: int, m: int", ["m > 0"],
                 'return total(parse_s({"type": "number", "minimum": a * 10 ** 400, "multipleOf": m * 10 ** 200, "maximum": 0.5, "exclusiveMinimum": -1.5e308}), v * 10 ** 400 + a)',
                 timeout=120, group="numbers", covers="ints far beyond double range against int and float bounds"))
    # parse totality
    for name, (hargs, pre, S) in PARSE_TEMPLATES.items():
        hs.append(mk(f"c10_parse_{name}", hargs, pre, f"return parse_total({S}) and doc_total({S})", timeout=400, group="parse",
                     tier="thorough" if name in ("names", "autotitle", "untyped_names", "title_only", "ignored_keywords", "object_in_positions") else "quick",
                     expect="unknown" if name in ("names", "autotitle", "untyped_names", "object_in_positions", "title_only", "ignored_keywords") else "confirmed", covers=S))
    hs.append(mk("c10_pattern_pool", "i: int, v: str", [f"0 <= i < {len(PATTERN_POOL)}", "len(v) <= 1"],
                 f'P = PATTERN_POOL[concretize_int(i, 0, {len(PATTERN_POOL) - 1})]\nS = {{"pattern": P, "patternProperties": {{P: {{"type": "integer"}}}}, "propertyNames": {{"pattern": P}}, "items": {{"pattern": P}}}}\nreturn parse_total(S) and total(parse_s(S), v) and total(parse_s(S), {{"ab": "x", "a": 1}}) and total(parse_s(S), ["ab", "aab", "word", "A", ""])',
                 timeout=300, group="patterns", covers="20 Python-valid regex constructs (lookaround, named groups, flags, classes, lazy quantifiers) as pattern / patternProperties / propertyNames"))
    hs.append(mk("c10_parse_extra_keywords", "i: int, j: int", [f"0 <= i < {len(EXTRA_KEYWORDS)}", "0 <= j < 8"],
                 f'k = EXTRA_KEYWORDS[concretize_int(i, 0, {len(EXTRA_KEYWORDS) - 1})]\nT = (None, "string", "integer", "array", "object", "null", ["integer", "null"], "number")[concretize_int(j, 0, 7)]\nS = {{k: 1, "title": "T", "anyOf": [{{k: "x"}}]}}\nif T is not None: S["type"] = T\nreturn parse_total(S) and doc_total(S)',
                 timeout=200, group="parse", covers="unknown / annotation keywords whose names coincide with Python parameter names, on every element type"))
    hs.append(mk("c10_parse_bool_documents", "b: bool, c: bool", [], 'return doc_total(b) and doc_total({"definitions": {"d": c, "e": {"items": b}}, "items": c}) and parse_total(b)', timeout=60, group="parse",
                 covers="boolean schemas as whole documents and as definitions"))
    hs.append(mk("c10_bigint_messages", "n: int, neg: bool", ["4290 <= n <= 4310"] + ctx.excl("C10-int-str-limit", "n < 4300"),
                 'x = 10 ** concretize_int(n, 4290, 4310)\nx = -x if neg else x\nreturn total(parse_s({"maximum": 1, "minimum": -1}), x) and total(parse_s({"enum": [1]}), [x]) and total(parse_s({"type": "object", "title": "T", "properties": {"a": {"const": 0}}}), {"a": x})',
                 timeout=200, group="numbers", message_stub=False, covers="integers around the 4300-digit int->str limit with REAL message formatting"))
    hs.append(mk("c10_message_format_chars", "i: int", [f"0 <= i < {len(FORMAT_CHARS)}"], f"return message_chars_ok(concretize_int(i, 0, {len(FORMAT_CHARS) - 1}))", timeout=200, group="messages",
                 message_stub=False, covers="names / literals / sub-schema reprs containing braces, percent signs and backslashes in REAL (un-stubbed) error messages of every rejecting keyword"))
    hs.append(mk("c10_all_registered_formats", "i: int", [f"0 <= i < {len(NASTY_STRINGS)}"], f"return all_formats_total(concretize_int(i, 0, {len(NASTY_STRINGS) - 1}))", timeout=200, group="format",
                 covers="every format name registered at run time x 25 hostile strings (huge quantifiers, long runs, unterminated groups, surrogates, 5000 chars)"))
    hs.append(mk("c10_parse_name_pool", "i: int, typed: bool", [f"0 <= i < {len(NAME_POOL)}"],
                 'a, b = NAME_POOL[i], NAME_POOL[(7 * i + 3) % len(NAME_POOL)]\nS = {"properties": {a: {"type": "integer"}, b: True}, "required": [b, a + b], "dependencies": {a: [b]}, "default": {a: b}, "enum": [{a: [b]}]}\nif typed: S.update({"type": "object", "title": "T" + a})\nreturn parse_total(S) and doc_total(S) and total(parse_s(S) if parse_ok(S) else parse_s(True), {a: 1, b: a})',
                 timeout=300, group="parse", covers="property / required / dependency names from a pool of unusual strings (unnamed code points, controls, private use, surrogates, non-BMP, empty)"))
    hs.append(mk("c10_parse_any_char_name", "s: str, typed: bool", ["len(s) == 1"],
                 'S = {"properties": {s: {"type": "integer"}}, "required": [s, "x" + s]}\nif typed: S.update({"type": "object", "title": "T"})\nreturn parse_total(S)',
                 timeout=60, group="parse", expect="unknown", covers="any single code point as property name (symbols are realised one per path: cannot exhaust, can refute)"))
    hs.append(mk("c10_parse__reach_error", "s: str", ["len(s) <= 1"], 'return parse_total({"type": "object", "title": s}) and len(s) > 0', kind="witness", timeout=30))
    return hs


def extra_checks(ctx):
    """E2: AST->SMT kernel obligations"""
    from vf import e2

    out = {"obligations": 0, "discharged": 0, "evaluations": 0, "solver_s": 0.0, "violations": [], "harness_errors": [], "lines": [], "report": {}}
    try:
        ncase, bad = e2.validate_translator()
    except e2.Unsupported as exc:
        out["harness_errors"].append(f"E2 encoding not applicable to current source of MultipleOf._validate: {exc}")
        return out
    out["report"]["translator_validation"] = {"cases": ncase, "mismatches": bad}
    if bad:
        out["harness_errors"].append(f"E2 translator disagrees with the real function on {bad[:3]}")
        return out
    res = e2.totality_obligations(90 if ctx.tier == "quick" else 300)
    try:
        res += e2.number_construct_obligations()
    except e2.Unsupported as exc:
        out["harness_errors"].append(f"E2 encoding not applicable to current source of Number.construct: {exc}")
    out["report"]["totality"] = res
    for r in res:
        out["obligations"] += 1
        out["evaluations"] += 1
        out["solver_s"] += r["solver_s"]
        if r["result"] == "unsat":
            out["discharged"] += 1
        elif r["result"] == "sat":
            if r.get("replay") not in ("return", "raise:ValidationError"):
                d = "/verif/replays/C10"
                os.makedirs(d, exist_ok=True)
                path = os.path.join(d, "e2-%s.json" % abs(hash(r["query"])))
                if "multipleOf" in r["counterexample"]:
                    call = "e2_replay(%s, %s)" % (r["counterexample"]["value"], r["counterexample"]["multipleOf"])
                else:
                    call = "e2_replay_number(%s)" % (r["counterexample"]["value"],)
                with open(path, "w") as fh:
                    json.dump({"property": "C10", "harness": "e2", "call": call, "detail": r}, fh, indent=1)
                out["violations"].append(("e2:" + r["query"], path, f"{call} -> {r['replay']}"))
            else:
                out["harness_errors"].append(f"E2 counterexample does not reproduce: {r}")
        else:
            out["lines"].append(f"  inconclusive (E2): {r['query']} -> {r['result']}")
    return out


def _demo_multipleof_overflow():
    return not (e2_replay(1e308, 0.1) and e2_replay(10 ** 400, 0.5) and e2_replay(1.5, 10 ** 400))


def _demo_datetime_overflow():
    from vf.common import parse_s

    return not total(parse_s({"format": "date-time"}), "9" * 25)


def _demo_number_overflow():
    return not e2_replay_number(10 ** 400)


def _demo_datetime_decimal():
    from vf.common import parse_s

    return not total(parse_s({"format": "date-time"}), "12:" + "9" * 30)


def _demo_dunder_names():
    from vf.common import parse_s

    return not (total(parse_s({"type": "object", "title": "T", "properties": {"__dict__": {}}}), {"__dict__": {}})
                and total(parse_s({"type": "object", "title": "T", "properties": {"__weakref__": {}}}), {"__weakref__": 1}))


def _demo_self_keyword():
    return not parse_total({"type": "string", "self": 1})


def _demo_bool_document():
    return not doc_total(True)


def _demo_int_str_limit():
    from vf.common import parse_s

    return not total(parse_s({"maximum": 1}), 10 ** 4301)


DEMOS = {"C10-self-keyword": _demo_self_keyword, "C10-bool-document": _demo_bool_document, "C10-int-str-limit": _demo_int_str_limit,
         "C10-multipleof-overflow": _demo_multipleof_overflow, "C10-datetime-overflow": _demo_datetime_overflow,
         "C10-number-float-overflow": _demo_number_overflow, "C10-datetime-decimal": _demo_datetime_decimal,
         "C10-dunder-property-names": _demo_dunder_names}
