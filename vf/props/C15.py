"""C15 - a subclass model means its parent's schema plus its own additions (E1)."""
from typing import List

from vf.harness import H, mk

EXPLANATION = (
    "Parent/child (and grandchild) model classes are declared inside the traced function; for each class keyword the presence in the "
    "parent and the override in the child are symbolic flags with symbolic integer parameters, properties are added/overridden by "
    "flag. z3 decides on every path that the child validates (all values in the shape) and serializes exactly like one flat class "
    "declared with the merged keywords and properties, that accepted instances are instances of the parent, and that the parent's "
    "deep snapshot, serialization and verdicts are identical before and after defining, calling and reconfiguring the child."
)
ASSUMPTIONS = ["in-place mutation of a container the child merely inherited by reference (e.g. Child.patternProperties['x'] = ...) is outside the claim; reconfiguration = attribute assignment and properties item operations"]
FUNCTIONS = ["statham.schema.elements.meta:ObjectMeta.__new__", "statham.schema.property:_Property.clone", "statham.schema.elements.meta:ObjectMeta.validators",
             "statham.schema.validation.object:Required.from_element"]

KW_VALUES = {
    # keyword: (parent value expr, child value expr) using holes m, n
    "additionalProperties": ("Integer(maximum=m)", "False"),
    "additionalProperties_reopen": ("False", "True"),
    "patternProperties": ('{"^c": Integer(minimum=m)}', '{"^c": Integer(maximum=n), "b$": Integer()}'),
    "minProperties": ("m % 3", "n % 3"),
    "maxProperties": ("1 + m % 3", "1 + n % 3"),
    "propertyNames": ("String(maxLength=1 + m % 2)", 'String(pattern="^[ab]")'),
    "dependencies": ('{"a": ["b"]}', '{"a": Element(minProperties=2), "c": ["a"]}'),
    "required": ('["b"]', '["c", "a"]'),
    "const": ('{"a": m}', '{"a": n, "b": 0}'),
    "enum": ('[{"a": m}, {"a": 1, "b": 2}]', '[{"a": n}]'),
    "default": ('{"a": m}', '{"a": n}'),
    "description": ('"parent"', '"child"'),
}


def build(kw, pf, cf, m, n, padd, pover, use_parent_first=False):
    """returns (Parent, Child, Flat)"""
    from vf.common import Object, ObjectMeta, Property, Integer, Element, String
    from statham.schema.elements.meta import ObjectClassDict

    pv, cv = KW_VALUES[kw]
    kw = kw.split("_")[0]
    env = {"m": m, "n": n, "Integer": Integer, "Element": Element, "String": String}

    def parent_props():
        return {"a": Property(Integer(minimum=m), required=True), "b_": Property(Integer(), source="b")}

    def child_props():
        cp = {}
        if padd:
            cp["c"] = Property(Integer(maximum=n), required=True)
        if pover:
            cp["a"] = Property(Integer(maximum=n), required=False)
        return cp

    pkw = {kw: eval(pv, env)} if pf else {}
    ckw = {kw: eval(cv, env)} if cf else {}
    P = Object.inline("P", properties=parent_props(), **pkw)
    if use_parent_first:
        from vf.common import accepts

        accepts(P, {"a": m, "b": 1})
        accepts(P, {"a": m - 1})
    cd = ObjectClassDict()
    for k, p in child_props().items():
        cd[k] = p
    C = ObjectMeta("C", (P,), cd, **ckw)
    merged_kw = {}
    if pf:
        merged_kw[kw] = eval(pv, env)
    if cf:
        merged_kw[kw] = eval(cv, env)
    merged_props = parent_props()
    merged_props.update(child_props())
    F = Object.inline("C", properties=merged_props, **merged_kw)
    return P, C, F


def merge_ok(kw, pf, cf, m, n, padd, pover, v, use_parent_first=False):
    from vf.common import verdict, serialize_json, jeq, jcopy

    P, C, F = build(kw, pf, cf, m, n, padd, pover, use_parent_first)
    ok_c, r = verdict(C, jcopy(v))
    ok_f, _ = verdict(F, jcopy(v))
    if ok_c != ok_f:
        return False
    if ok_c and not isinstance(r, P):
        return False
    jc, jf = serialize_json(C), serialize_json(F)
    return jeq(jc, jf)


def chain_ok(m, n, k, v):
    """grandchild: G(C(P)) == flat"""
    from vf.common import Object, ObjectMeta, Property, Integer, verdict, serialize_json, jeq, jcopy
    from statham.schema.elements.meta import ObjectClassDict

    P = Object.inline("P", properties={"a": Property(Integer(minimum=m), required=True)}, additionalProperties=Integer(), minProperties=1)
    cd = ObjectClassDict()
    cd["b_"] = Property(Integer(maximum=n), source="b")
    C = ObjectMeta("C", (P,), cd, required=["b"])
    gd = ObjectClassDict()
    gd["a"] = Property(Integer(minimum=k))
    G = ObjectMeta("G", (C,), gd, additionalProperties=False)
    F = Object.inline("G", properties={"a": Property(Integer(minimum=k)), "b_": Property(Integer(maximum=n), source="b")},
                      additionalProperties=False, minProperties=1, required=["b"])
    ok_g, r = verdict(G, jcopy(v))
    ok_f, _ = verdict(F, jcopy(v))
    if ok_g != ok_f:
        return False
    if ok_g and not (isinstance(r, C) and isinstance(r, P)):
        return False
    return jeq(serialize_json(G), serialize_json(F))


def chain_after_edit_ok(m, n, how, v):
    """Base -> Middle -> Leaf where Middle is reconfigured AFTER its definition and BEFORE Leaf is declared:
    Leaf == flat class built from Middle's CURRENT configuration plus Leaf's additions"""
    from vf.common import Object, ObjectMeta, Property, Integer, String, verdict, serialize_json, jeq, jcopy
    from statham.schema.elements.meta import ObjectClassDict

    Base = Object.inline("Base", properties={"a": Property(Integer(minimum=m), required=True), "legacy": Property(String(), required=True)}, additionalProperties=False)
    Middle = ObjectMeta("Middle", (Base,), ObjectClassDict())
    if how == 0:
        del Middle.properties["legacy"]
    elif how == 1:
        Middle.properties = {"a": Property(Integer(maximum=n))}
    elif how == 2:
        Middle.properties["legacy"] = Property(Integer(), required=False)
    else:
        Middle.properties.pop("a")
        Middle.additionalProperties = Integer()
    cd = ObjectClassDict()
    cd["c"] = Property(Integer(maximum=n))
    Leaf = ObjectMeta("Leaf", (Middle,), cd)
    flat_props = {k: Property(p.element, required=p.required, source=p.source) for k, p in Middle.properties.items()}
    flat_props["c"] = Property(Integer(maximum=n))
    Flat = Object.inline("Leaf", properties=flat_props, additionalProperties=Middle.additionalProperties)
    ok_l, r = verdict(Leaf, jcopy(v))
    ok_f, _ = verdict(Flat, jcopy(v))
    if ok_l != ok_f:
        return False
    if ok_l and not (isinstance(r, Middle) and isinstance(r, Base)):
        return False
    return jeq(serialize_json(Leaf), serialize_json(Flat))


def isolation_ok(kw, m, n, op, v, w):
    """the parent is untouched by defining, using and reconfiguring the child"""
    from vf.common import snapshot, serialize_json, verdict, jcopy, Property, Integer, result_eq, jeq

    P, _C0, _F = build(kw, True, False, m, n, False, False)
    kw = kw.split("_")[0]
    s0 = snapshot(P)
    j0 = serialize_json(P)
    a0, r0 = verdict(P, jcopy(v))
    # define the child (with override and additions), use it
    from vf.common import ObjectMeta
    from statham.schema.elements.meta import ObjectClassDict

    cd = ObjectClassDict()
    cd["c"] = Property(Integer(maximum=n), required=True)
    cd["a"] = Property(Integer(maximum=n))
    pv, cv = KW_VALUES[kw]
    C = ObjectMeta("C", (P,), cd)
    verdict(C, jcopy(w))
    if op == 0:
        from vf.common import Element, String

        setattr(C, kw, eval(cv, {"m": m, "n": n, "Integer": Integer, "Element": Element, "String": String}))
    elif op == 1:
        C.properties["z"] = Property(Integer(), required=True)
    elif op == 2:
        del C.properties["b_"]
    elif op == 3:
        C.properties["a"] = Property(Integer(minimum=n + 1), required=True)
    elif op == 4:
        C.required = ["zz"]
    elif op == 5:
        C.additionalProperties = False
    verdict(C, jcopy(w))
    verdict(C, jcopy(v))
    if snapshot(P) != s0:
        return False
    if not jeq(serialize_json(P), j0):
        return False
    a1, r1 = verdict(P, jcopy(v))
    if a0 != a1 or (a0 and not result_eq(r0, r1)):
        return False
    return True


def child_differs(m, n, v):
    from vf.common import accepts, jcopy

    P, C, F = build("additionalProperties", True, True, m, n, True, True)
    return accepts(P, jcopy(v)) != accepts(C, jcopy(v))


DV = "Dict[str, int]"
DPRE = ["len(v) <= 2", "all(k in ('a', 'b', 'c', 'ab') for k in v)"]


def harnesses(ctx) -> List[H]:
    hs: List[H] = []
    for kw in KW_VALUES:
        hs.append(mk(f"c15_merge_{kw}", f"pf: bool, cf: bool, m: int, n: int, padd: bool, pover: bool, v: {DV}", DPRE,
                     f"return merge_ok({kw!r}, pf, cf, m, n, padd, pover, v)", timeout=200, group="merge",
                     tier="quick" if kw in ("additionalProperties", "additionalProperties_reopen", "required", "patternProperties") else "thorough",
                     covers=f"class keyword {kw}: present in parent (flag), overridden in child (flag); property added / overridden (flags)"))
    for kw in ("additionalProperties", "required", "patternProperties"):
        hs.append(mk(f"c15_merge_parent_used_first_{kw}", f"cf: bool, m: int, n: int, padd: bool, pover: bool, v: {DV}", DPRE,
                     f"return merge_ok({kw!r}, True, cf, m, n, padd, pover, v, True)", timeout=200, group="merge",
                     tier="quick" if kw == "additionalProperties" else "thorough", covers=f"{kw}: the parent validates values BEFORE the child is declared"))
    hs.append(mk("c15_chain_after_edit", f"m: int, n: int, how: int, v: Dict[str, Union[int, str]]", ["0 <= how < 4", "len(v) <= 2", "all(k in ('a', 'legacy', 'c', 'z') for k in v)", "all((not isinstance(x, str)) or len(x) <= 1 for x in v.values())"],
                 "return chain_after_edit_ok(m, n, concretize_int(how, 0, 3), v)", timeout=200, group="merge",
                 covers="three-level chain whose middle class is reconfigured (property deleted / replaced / properties reassigned) before the leaf is declared"))
    hs.append(mk("c15_chain", f"m: int, n: int, k: int, v: {DV}", DPRE, "return chain_ok(m, n, k, v)", timeout=120, group="merge"))
    for kw in ("required", "additionalProperties", "patternProperties", "dependencies", "minProperties"):
        for op in range(6):
            hs.append(mk(f"c15_isolation_{kw}_op{op}", f"m: int, n: int, v: {DV}, x: int, y: int, z: int",
                         DPRE,
                         f"return isolation_ok({kw!r}, m, n, {op}, v, {{'a': x, 'b': y, 'c': z}})", timeout=200, group="isolation",
                         tier="quick" if (kw in ("required", "additionalProperties") and op in (0, 1, 3)) else "thorough",
                         covers=f"parent with {kw}; child defined, called, reconfigured by op {op}; parent snapshot/serialization/verdict unchanged"))
    hs.append(mk("c15__differs", f"m: int, n: int, v: {DV}", DPRE, "return not child_differs(m, n, v)", kind="witness", timeout=30))
    return hs


def _demo_parent_required_mutated():
    from vf.common import Object, ObjectMeta, Property, Integer, accepts
    from statham.schema.elements.meta import ObjectClassDict

    P = Object.inline("P", properties={"a": Property(Integer())}, required=["b"])
    cd = ObjectClassDict()
    cd["c"] = Property(Integer(), required=True)
    C = ObjectMeta("C", (P,), cd)
    before = list(P.required)
    accepts(C, {"b": 1, "c": 2})
    return list(P.required) != before


DEMOS = {"C15-parent-required-mutated": _demo_parent_required_mutated}
