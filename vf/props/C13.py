"""C13 - elements always validate according to their current configuration (E1: symbolic operation histories)."""
from typing import List

from vf.harness import H, mk

EXPLANATION = (
    "Every sequence of K reconfiguration opcodes (K=2 quick, K=3 thorough) is expanded into one condition; the operand of every step, the shape bits and the integers of the validated values are solver variables; "
    "after EVERY step the element (or model class) validates a value derived from further symbolic integers and presence bits, and "
    "verdict and result are compared with those of a FRESH element constructed from the observable configuration read back from the "
    "public attributes (constructor keywords; each property's element, required, source). Memoised validators / Properties / Items, "
    "stale required lists or properties still bound to an old owner make some history disagree."
)
ASSUMPTIONS = ["'same configuration' = constructor keywords read back from public attributes + (element, required, source) of each property"]
FUNCTIONS = ["statham.schema.elements.base:Element.validators", "statham.schema.elements.base:Element.__properties__", "statham.schema.elements.base:Element.__items__",
             "statham.schema.elements.base:Element.properties", "statham.schema.property:_PropertyDict.__setitem__", "statham.schema.elements.meta:ObjectMeta.validators"]

ELEMENT_KW = None
CLASS_KW = ("default", "const", "enum", "required", "minProperties", "maxProperties", "patternProperties",
            "additionalProperties", "propertyNames", "dependencies", "description")


def _element_kw():
    global ELEMENT_KW
    if ELEMENT_KW is None:
        import inspect
        from vf.common import Element

        ELEMENT_KW = [p.name for p in inspect.signature(Element.__init__).parameters.values() if p.kind == p.KEYWORD_ONLY]
    return ELEMENT_KW


def _fresh_props(props):
    from vf.common import Property, NotPassed

    if isinstance(props, NotPassed) or props is None:
        return props
    return {py: Property(p.element, required=p.required, source=p.source) for py, p in props.items()}


def fresh(el):
    from vf.common import Element, ObjectMeta, Object, NotPassed

    if isinstance(el, ObjectMeta):
        kw = {k: getattr(el, k) for k in CLASS_KW}
        return Object.inline(el.__name__, properties=_fresh_props(el.properties) or {}, **kw)
    kw = {}
    for name in _element_kw():
        val = getattr(el, name)
        if name == "properties":
            val = _fresh_props(val)
        kw[name] = val
    return Element(**kw)


def agree(el, v):
    from vf.common import verdict, result_eq, jcopy

    a1, r1 = verdict(el, jcopy(v))
    a2, r2 = verdict(fresh(el), jcopy(v))
    if a1 != a2:
        return False
    if a1 and not result_eq(r1, r2):
        return False
    return True


def value_for(kind, bits, x):
    if kind == "scalar":
        return x
    if kind == "list":
        n = bits % 4
        return [x, x + 1, x][:n]
    v = {}
    if bits % 2:
        v["a"] = x
    if (bits // 2) % 2:
        v["b"] = x + 1
    if (bits // 4) % 2:
        v["c"] = x
    return v


def step_numeric(el, op, a):
    from vf.common import NotPassed

    op = op % 6
    if op == 0:
        el.minimum = a
    elif op == 1:
        el.minimum = NotPassed()
    elif op == 2:
        el.maximum = a
    elif op == 3:
        el.exclusiveMaximum = a
    elif op == 4:
        el.const = a
    else:
        el.const = NotPassed()


def step_array(el, op, a):
    from vf.common import NotPassed, Integer, Element

    op = op % 7
    if op == 0:
        el.items = Integer(minimum=a)
    elif op == 1:
        el.items = [Integer(), Integer(maximum=a)]
    elif op == 2:
        el.additionalItems = bool(a % 2)
    elif op == 3:
        el.maxItems = a % 4
    elif op == 4:
        el.maxItems = NotPassed()
    elif op == 5:
        el.uniqueItems = bool(a % 2)
    else:
        el.contains = Element(const=a)


def step_object(el, op, a):
    """works for untyped elements and model classes alike (attribute assignment / properties item ops)"""
    from vf.common import NotPassed, Integer, Property, Element

    op = op % 10
    if op == 9:
        # a declared property whose element is a composition and whose name matches the "^c" pattern of op 8
        from vf.common import AllOf

        el.properties = {"c": Property(AllOf(Integer(minimum=a), Element(multipleOf=1 + a % 3)), required=bool(a % 2)), "a": Property(Integer())}
    elif op == 0:
        el.required = ["a"] if a % 2 else ["b", "c"]
    elif op == 1:
        el.required = NotPassed()
    elif op == 2:
        el.additionalProperties = bool(a % 2)
    elif op == 3:
        el.additionalProperties = Integer(maximum=a)
    elif op == 4:
        el.properties = {"a": Property(Integer(maximum=a), required=bool(a % 2))}
    elif op == 5:
        if el.properties is not None and not isinstance(el.properties, NotPassed):
            el.properties["b_"] = Property(Integer(minimum=a), source="b", required=True)
    elif op == 6:
        if el.properties is not None and not isinstance(el.properties, NotPassed) and "a" in el.properties:
            del el.properties["a"]
    elif op == 7:
        el.minProperties = a % 3
    else:
        el.patternProperties = {"^c": Integer(minimum=a)}


def run_history(kind, ops, args, xs):
    from vf.common import Element, Object, Property, Integer

    if kind == "scalar":
        el, step = Element(minimum=0), step_numeric
    elif kind == "list":
        el, step = Element(items=Integer()), step_array
    elif kind == "dict":
        el, step = Element(properties={"a": Property(Integer())}), step_object
    else:
        el = Object.inline("M", properties={"a": Property(Integer(), required=True)})
        step = step_object
        kind = "dict"
    if not agree(el, value_for(kind, 7, 0)):
        return False
    last = len(ops) - 1
    for i in range(len(ops)):
        step(el, ops[i], args[i])
        # intermediate validations use the full shape (they exist to populate any memo);
        # the shape of the final one is symbolic
        bits = (args[i] // 8) if i == last else 7
        if not agree(el, value_for(kind, bits, xs[i])):
            return False
    return True


def history_effect(kind, ops, args, xs):
    """witness: some reconfiguration changed the verdict on the same value."""
    from vf.common import Element, Object, Property, Integer, accepts

    if kind == "dict":
        el, step = Element(properties={"a": Property(Integer())}), step_object
    else:
        el, step = Element(minimum=0), step_numeric
    v = value_for(kind, 7, xs[0])
    before = accepts(el, v)
    step(el, ops[0], args[0])
    return before != accepts(el, v)


NOPS = {"scalar": 6, "list": 7, "dict": 10, "class": 10}


def independent_parses_ok(how, op, m, c1, c2, v):
    """two separately parsed models with the same title: reconfiguring the first never changes how the second validates, and
    the second validates by ITS OWN schema (lookalike literals 1 / True) - no state is shared between parse calls"""
    from vf.common import parse_element, parse, accepts, oracle, jcopy, Integer, Property

    S1 = {"type": "object", "title": "Account", "properties": {"name": {"type": "integer", "minimum": m}, "on": {"const": c1}}}
    S2 = jcopy(S1)
    S2["properties"]["on"] = {"const": c2}
    if how == 0:
        A, B = parse_element(jcopy(S1)), parse_element(jcopy(S2))
    elif how == 1:
        A, B = parse(jcopy(S1))[0], parse_element(jcopy(S2))
    else:
        A, B = parse(jcopy(S1))[0], parse(jcopy(S2))[0]
    if B.__name__ != "Account":
        return False
    if op == 0:
        A.additionalProperties = False
    elif op == 1:
        A.properties["name"].required = True
    elif op == 2:
        A.properties["extra"] = Property(Integer(), required=True)
    else:
        A.minProperties = 2
    return accepts(B, jcopy(v)) == oracle(S2, v)


def harnesses(ctx) -> List[H]:
    import itertools

    hs: List[H] = []
    for kind in ("scalar", "list", "dict", "class"):
        n = NOPS[kind]
        for K, tier, to in ((2, "quick", 150), (3, "thorough", 240)):
            for seq in itertools.product(range(n), repeat=K):
                if K == 3 and kind in ("scalar", "list") and seq[0] > seq[1]:
                    continue  # thin the cheaper families
                if K == 3 and kind in ("dict", "class") and seq[0] == seq[1] == seq[2]:
                    continue
                # thinning of the K=3 object families (10^3 sequences each would take 90 min): dict keeps
                # the sequences with an even position sum, class those with an odd one - together every
                # ordered triple of opcodes is exercised on one of the two targets (they share step_object)
                if K == 3 and kind == "dict" and (seq[0] + seq[1] + seq[2]) % 2:
                    continue
                if K == 3 and kind == "class" and (seq[0] + seq[1] + seq[2]) % 2 == 0:
                    continue
                pre = [f"len(args) == {K}", f"len(xs) == {K}", "all(0 <= a < 64 for a in args)"]
                nm = "".join(str(o) for o in seq)
                hs.append(mk(f"c13_{kind}_k{K}_{nm}", "args: List[int], xs: List[int]", pre,
                             f"return run_history({kind!r}, {list(seq)!r}, args, xs)", tier=tier, timeout=to, group=f"history-{kind}",
                             covers=f"op sequence {seq} on a {kind} target (operands, values symbolic), validation after every step vs fresh element"))
    for how in range(3):
        for op in range(4):
            hs.append(mk(f"c13_independent_parses_h{how}_o{op}", "m: int, c1: Union[int, bool], c2: Union[int, bool], hn: bool, n: int, ho: bool, o: Union[int, bool], hz: bool", [],
                         f"v = {{}}\nif hn: v['name'] = n\nif ho: v['on'] = o\nif hz: v['z'] = 0\nreturn independent_parses_ok({how}, {op}, m, c1, c2, v)", timeout=120, group="history",
                         tier="quick" if (how, op) in ((0, 0), (0, 3), (1, 1), (2, 2)) else "thorough",
                         covers="two same-titled object schemas parsed by separate parse_element()/parse() calls; the first is reconfigured; the second still validates by its own schema (const lookalikes 1 / True)"))
    for kind in ("scalar", "dict"):
        pre = ["len(ops) == 1", "len(args) == 1", "len(xs) == 1", "all(0 <= o < 9 for o in ops)", "all(0 <= a < 64 for a in args)"]
        hs.append(mk(f"c13_{kind}__effect", "ops: List[int], args: List[int], xs: List[int]", pre,
                     f"return not history_effect({kind!r}, ops, args, xs)", kind="witness", timeout=30, group="history"))
    return hs


DEMOS = {}
