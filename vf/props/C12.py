"""C12 - every JSON name maps to a usable, unambiguous Python name (E1)."""
import keyword
from typing import List

from vf.harness import H, mk

EXPLANATION = (
    "_parse_attribute_name and _title_format are executed symbolically on strings of up to 2-3 code points (CrossHair's Unicode tables "
    "make isalnum / isidentifier / whitespace membership solver decisions; unicodedata.name is a C call, so symbol characters are "
    "realised and enumerated path by path). Claims: the attribute name is an identifier, not a keyword, not reserved, the JSON name "
    "stays recorded as source; sibling names do not collapse; the class name is a non-empty identifier distinct from every imported / "
    "used name (set read from the real generated text of a reference document) and from every other class after de-duplication."
)
ASSUMPTIONS = [
    "NFKC normalisation of identifiers by the Python compiler is not modelled (checked only when realised witnesses are exec'd)",
    "strings bounded to <=3 code points (<=2 where symbols are enumerated)",
]
FUNCTIONS = ["statham.schema.parser:_parse_attribute_name", "statham.schema.parser:_title_format", "statham.schema.parser:_ParseState.dedupe",
             "statham.schema.parser:_parse_properties", "statham.schema.elements.meta:ObjectClassDict.__setitem__"]

_USED = None


def used_names():
    """names a generated module imports or uses: read from real generated text"""
    global _USED
    if _USED is None:
        import re
        from vf.common import (Object, Property, Array, AnyOf, OneOf, AllOf, Not, Integer, Number, String, Boolean, Null, Element, Nothing,
                               serialize_python)

        M = Object.inline("RefDoc", properties={
            "a": Property(Array(AnyOf(Integer(), String()))), "b": Property(OneOf(Number(), Boolean(), Null())),
            "c": Property(AllOf(Element(), Not(Nothing())), required=True), "d": Property(Array([Integer(), String()], additionalItems=False)),
        })
        text = serialize_python(M)
        names = set()
        for line in re.findall(r"^from [\w.]+ import \(?([^)]*?)\)?$", text, flags=re.M | re.S):
            for n in re.split(r"[,\s]+", line):
                if n:
                    names.add(n)
        for block in re.findall(r"import \((.*?)\)", text, flags=re.S):
            for n in re.split(r"[,\s]+", block):
                if n:
                    names.add(n)
        names |= {"None", "True", "False"}
        import statham.schema.elements as E

        for n in dir(E):
            obj = getattr(E, n)
            if isinstance(obj, type) and n[0].isupper():
                names.add(n)
        names |= {"Any", "List", "Union", "Maybe", "Property"}
        names.discard("RefDoc")
        _USED = frozenset(names)
    return _USED


def _not_in(out, names):
    # sequential comparisons: `in frozenset` would hash (= realise) the symbolic string
    for k in names:
        if out == k:
            return False
    return True


def attr_valid(s, maxlen=None):
    """maxlen: a concrete upper bound on len(result) known to the caller (alphanumeric inputs map
    1:1 plus at most one prefix/suffix character) - only names that short need comparing"""
    from statham.schema.parser import _parse_attribute_name
    from vf.common import RESERVED_PROPERTIES

    out = _parse_attribute_name(s)
    kws, res = keyword.kwlist, RESERVED_PROPERTIES
    if maxlen is not None:
        if len(out) > maxlen:
            return False
        kws = [k for k in kws if len(k) <= maxlen]
        res = [k for k in res if len(k) <= maxlen]
    return out.isidentifier() and _not_in(out, kws) and _not_in(out, res)


def attr_source(s):
    from vf.common import parse_s

    el = parse_s({"properties": {s: {"type": "integer"}}})
    props = el.properties
    if len(props) != 1:
        return False
    name, prop = list(props.items())[0]
    return prop.source == s and prop.name == name and name.isidentifier()


def attr_source_required_only(s):
    """a name that only appears under "required" (typed object): the synthetic property records the JSON name"""
    from vf.common import parse_s, accepts

    el = parse_s({"type": "object", "title": "T", "required": [s]})
    props = el.properties
    if len(props) != 1:
        return False
    name, prop = list(props.items())[0]
    return prop.source == s and prop.name == name and accepts(el, {s: 1}) and not accepts(el, {})


def attr_source_reparse(s, how):
    """object schemas whose `properties` are parsed and then parsed AGAIN (type list, composition sibling, one dict used twice)"""
    from vf.common import parse_element, parse_s, accepts, get_object_classes

    obj = {"type": "object", "title": "T", "properties": {s: {"type": "integer"}}, "required": [s]}
    if how == 0:
        S = dict(obj, type=["object", "null"])
    elif how == 1:
        S = dict(obj, anyOf=[{"minProperties": 0}])
    elif how == 2:
        S = dict(obj)
        S["not"] = {"required": ["zz"]}
    else:
        S = {"type": "object", "title": "Root", "properties": {"p": obj, "q": obj}, "definitions": {"d": obj}}
        root = parse_element(S)
        cls = root.properties["q"].element
        classes = [c for c in get_object_classes(root) if c.__name__.startswith("T")]
        return _source_ok(cls, s) and len(classes) >= 1 and all(_source_ok(c, s) for c in classes)
    el = parse_s(S)
    classes = list(get_object_classes(el))
    return len(classes) == 1 and _source_ok(classes[0], s) and accepts(el, {s: 1}) and not accepts(el, {})


def attr_usable(s, typed, overlap, x):
    """the mapped name is USABLE: a value supplied under the JSON name is read back under the Python name (attribute of a
    model instance / key of an untyped result), also when a patternProperties regex matches the JSON name as well"""
    from vf.common import parse_s, verdict

    S = {"properties": {s: {"type": "integer"}, "plain": {"type": "integer"}}}
    if typed:
        S.update({"type": "object", "title": "T"})
    if overlap:
        S["patternProperties"] = {"": {"maximum": 10 ** 6}}
    el = parse_s(S)
    names = [n for n, p in el.properties.items() if p.source == s]
    if len(names) != 1:
        return False
    name = names[0]
    ok, r = verdict(el, {s: x, "plain": 0})
    if not ok:
        return x > 10 ** 6 and overlap
    got = getattr(r, name) if typed else r[name]
    keys = set(r._dict) if typed else set(r)
    return got == x and keys == {name, "plain"}


def _source_ok(cls, s):
    props = cls.properties
    return len(props) == 1 and list(props.values())[0].source == s


def attr_distinct(s1, s2):
    from statham.schema.parser import _parse_attribute_name

    return _parse_attribute_name(s1) != _parse_attribute_name(s2)


def siblings_survive(s1, s2):
    """two sibling properties both survive parsing, each validated by its own schema"""
    from vf.common import parse_s, accepts

    el = parse_s({"properties": {s1: {"type": "integer"}, s2: {"type": "string"}}})
    if len(el.properties) != 2:
        return False
    return accepts(el, {s1: 1, s2: "x"}) and not accepts(el, {s1: "x"}) and not accepts(el, {s2: 1})


def title_valid(t):
    from statham.schema.parser import _title_format

    out = _title_format(t)
    return len(out) > 0 and out.isidentifier() and _not_in(out, keyword.kwlist) and _not_in(out, sorted(used_names()))


TITLE_POOL = ("A", "a", "A 1", "A_1")


def titles_distinct(i, j, k, same12, same23):
    from vf.common import parse_s, get_object_classes, serialize_python, exec_generated, classes_of

    def sch(title, variant):
        return {"type": "object", "title": title, "properties": {"x": {"type": "integer", "minimum": variant}}}

    doc = {"type": "object", "title": "Root", "properties": {
        "p": sch(TITLE_POOL[i], 0), "q": sch(TITLE_POOL[j], 0 if same12 else 1), "r": sch(TITLE_POOL[k], (0 if same12 else 1) if same23 else 2)}}
    root = parse_s(doc)
    classes = []
    for c in get_object_classes(root):
        if not any(c is d for d in classes):
            classes.append(c)
    names = [c.__name__ for c in classes]
    if len(set(names)) != len(names):
        return False
    ns = exec_generated(serialize_python(root))
    if ns is None:
        return False
    gen = classes_of(ns)
    return set(gen) == set(names) and all(gen[c.__name__] == c for c in classes)


def titles_distinct_positions(k):
    """several DIFFERENT object schemas titled alike, one of them at position k: all classes get distinct names
    and the generated module defines every one of them"""
    from vf.common import parse, get_object_classes, serialize_python, exec_generated, classes_of

    def pt(i):
        return {"type": "object", "title": "Point", "properties": {"c%d" % i: {"type": "integer"}}}

    doc = {"type": "object", "title": "Route", "properties": {"start": pt(0)}, "definitions": {}}
    positions = [
        lambda d, x: d["properties"].__setitem__("tup", {"type": "array", "items": [x, {"type": "integer"}]}),
        lambda d, x: d["properties"].__setitem__("tup", {"items": [{"type": "integer"}, x], "additionalItems": pt(8)}),
        lambda d, x: d["properties"].__setitem__("arr", {"type": "array", "items": x, "contains": pt(8)}),
        lambda d, x: d.__setitem__("anyOf", [{"type": "null"}, x, pt(8)]),
        lambda d, x: d.__setitem__("patternProperties", {"^p": x, "^q": pt(8)}),
        lambda d, x: d.__setitem__("additionalProperties", x),
        lambda d, x: d.__setitem__("dependencies", {"start": x, "tup": pt(8)}),
        lambda d, x: d["definitions"].__setitem__("P", x),
        lambda d, x: d["properties"].__setitem__("neg", {"not": x, "oneOf": [pt(8), {"type": "string"}]}),
        lambda d, x: d["properties"].__setitem__("tl", dict(x, type=["object", "null"])),
        lambda d, x: d["properties"].__setitem__("nest", {"type": "object", "title": "Point", "properties": {"inner": x}}),
    ]
    positions[k](doc, pt(9))
    els = parse(doc)
    classes = []
    for c in get_object_classes(*els):
        if not any(c is d for d in classes):
            classes.append(c)
    names = [c.__name__ for c in classes]
    if len(set(names)) != len(names):
        return False
    ns = exec_generated(serialize_python(*els))
    if ns is None:
        return False
    gen = classes_of(ns)
    return set(gen) == set(names) and all(gen[c.__name__] == c for c in classes)


# exclusion predicates for the known findings (narrow: they describe the defect's input class)
ALNUM_NOT_IDENT = "all((not c.isalnum()) or ('a' + c).isidentifier() for c in s)"
SEPARATORS = "('_', ' ', '-', chr(9), chr(10), chr(11), chr(12), chr(13))"


def harnesses(ctx) -> List[H]:
    hs: List[H] = []
    Q, T = "quick", "thorough"
    ex_a = ctx.excl("C12-attr-alnum-not-identifier", ALNUM_NOT_IDENT)
    ex_e = ctx.excl("C12-empty-name-source", "len(s) > 0")
    # ---- attribute names: validity
    hs.append(mk("c12_attr_valid_alnum1", "s: str", ["len(s) <= 1", "all(c.isalnum() or c in '_- ' for c in s)"] + ex_a,
                 "return attr_valid(s, 5)", timeout=600, tier=T, expect="unknown", group="attr", covers="one alphanumeric/underscore/hyphen/space character (all of Unicode)"))
    hs.append(mk("c12_attr_valid_alnum1_ctx", "s: str", ["len(s) == 1", "s.isalnum() or s in '_- '"] + ex_a,
                 "return attr_valid('x' + s + 'y', 4)", timeout=400, tier=T, expect="unknown", group="attr", covers="one alphanumeric/underscore/hyphen/space character between letters"))
    hs.append(mk("c12_attr_valid_alnum2", "s: str", ["len(s) == 2", "all(c.isalnum() or c in '_- ' for c in s)"] + ex_a,
                 "return attr_valid(s, 4)", timeout=600, tier=T, expect="unknown", group="attr", covers="names of alphanumerics/underscore/hyphen/space (all of Unicode), 2 chars"))
    hs.append(mk("c12_attr_valid_alnum3", "s: str", ["len(s) == 3", "all(c.isalnum() or c in '_- ' for c in s)"] + ex_a,
                 "return attr_valid(s, 5)", timeout=600, tier=T, group="attr", expect="unknown", covers="same, exactly 3 chars"))
    hs.append(mk("c12_attr_valid_ascii1", "s: str", ["len(s) == 1", "ord(s[0]) < 128"], "return attr_valid(s)", timeout=300, group="attr",
                 covers="every single ASCII character (symbols are enumerated through unicodedata.name realisation)"))
    hs.append(mk("c12_attr_valid_wrapped", "s: str", ["len(s) == 1", "ord(s[0]) < 128"],
                 "return attr_valid('a' + s + 'b') and attr_valid(s + '_') and attr_valid('_' + s) and attr_valid('1' + s)",
                 timeout=400, group="attr", covers="every ASCII character in context (between letters, next to underscores, after a digit)"))
    hs.append(mk("c12_attr_valid_latin1", "s: str", ["len(s) == 1", "128 <= ord(s[0]) < 256"] + ex_a, "return attr_valid(s)", timeout=400, tier=T, group="attr",
                 covers="every single Latin-1 supplement character"))
    hs.append(mk("c12_attr_valid_symbol_pairs", "i: int, j: int", ["0 <= i < 7", "0 <= j < 7"],
                 "pool = ('$', '@', '.', chr(9), chr(0), chr(233), '_')\nreturn attr_valid(pool[i] + pool[j]) and attr_valid('x' + pool[i] + pool[j])", timeout=200, group="attr",
                 covers="adjacent symbol pairs from {$ @ . TAB NUL e-acute _}"))
    hs.append(mk("c12_attr_valid_unicode2", "s: str", ["1 <= len(s) <= 2"] + ex_a, "return attr_valid(s)", timeout=300, tier=T, group="attr", expect="unknown",
                 covers="any two code points (unicodedata.name realises symbols: cannot exhaust; can refute)"))
    hs.append(mk("c12_attr_reserved", "i: int", ["0 <= i < 200"],
                 "names = sorted(set(RESERVED_PROPERTIES))\nn = names[i % len(names)]\nreturn attr_valid(n) and attr_valid(n + '_') and attr_source(n)",
                 timeout=300, group="attr", covers="every reserved attribute name and keyword, plain and with a trailing underscore"))
    hs.append(mk("c12_attr_source_ascii1", "s: str", ["len(s) <= 1", "all(ord(c) < 128 for c in s)"] + ex_e, "return attr_source(s)", timeout=300, group="attr",
                 covers="JSON name stays recorded as source; property bound under the mapped name"))
    hs.append(mk("c12_attr_source_required_only_ascii1", "s: str", ["len(s) == 1", "ord(s[0]) < 128"], "return attr_source_required_only(s)", timeout=400, group="attr",
                 covers="names that occur only under required: JSON name recorded, value under that name accepted"))
    hs.append(mk("c12_attr_source_required_only_pool", "i: int", ["0 <= i < 8"], "pool = ('my-prop', 'class', '$ref', '1st', 'two words', '__init__', 'a.b', 'default')\nreturn attr_source_required_only(pool[concretize_int(i, 0, 7)]) and attr_source(pool[concretize_int(i, 0, 7)])", timeout=200, group="attr",
                 covers="typical renamed names, declared and required-only"))
    hs.append(mk("c12_attr_usable_pool", "i: int, typed: bool, overlap: bool, x: int", ["0 <= i < 10"],
                 "pool = ('my-prop', 'class', '$ref', '1st', 'two words', '__init__', 'a.b', 'default', '_dict', 'x')\nreturn attr_usable(pool[concretize_int(i, 0, 9)], typed, overlap, x)", timeout=300, group="attr",
                 covers="renamed properties are readable under the mapped name after validation, with and without a patternProperties regex that also matches the JSON name; typed and untyped"))
    rpool = ("-dict", " dict", "\tdict", "--init--", "__class  ", "- module -", "--dict--", "_dict ", "class-", " class", "-class", "1class", "de f", "None-", "__init__ ", "_-dict")
    hs.append(mk("c12_attr_reserved_after_mapping_pool", "i: int, typed: bool, x: int", [f"0 <= i < {len(rpool)}"],
                 f"n = {rpool!r}[concretize_int(i, 0, {len(rpool) - 1})]\nreturn attr_valid(n) and attr_source(n) and attr_usable(n, typed, False, x)", timeout=300, group="attr",
                 covers="names that only BECOME reserved / keywords once separators are mapped to underscores (-dict, --init--, ' class', ...): still valid, non-reserved, usable"))
    hs.append(mk("c12_attr_source_reparse_pool", "i: int, how: int", ["0 <= i < 8", "0 <= how < 4"],
                 "pool = ('my-prop', 'class', '$ref', '1st', 'two words', '__init__', 'a.b', 'plain')\nreturn attr_source_reparse(pool[concretize_int(i, 0, 7)], concretize_int(how, 0, 3))", timeout=300, group="attr",
                 covers="renamed names on objects whose properties are re-parsed (type list, anyOf / not sibling, one sub-schema dict used three times)"))
    # ---- attribute names: siblings
    ex_c = ctx.known("C12-attr-collision")
    dom1 = ["len(s1) == 1", "len(s2) == 1", "s1 != s2", "all(ord(c) < 128 for c in s1 + s2)"]
    if ex_c:
        dom1 += [f"all(c not in {SEPARATORS} and ord(c) >= 32 and ord(c) != 127 for c in s1 + s2)"]
    hs.append(mk("c12_attr_injective_ascii1", "s1: str, s2: str", dom1, "return attr_distinct(s1, s2)", timeout=1500, group="siblings", tier=T,
                 covers="two different single ASCII characters never map to the same attribute" + (" (outside the known separator/unnamed collision classes)" if ex_c else "")))
    hs.append(mk("c12_attr_injective_letters1", "s1: str, s2: str", ["len(s1) == 1", "len(s2) == 1", "s1 != s2", "all(c.isalpha() for c in s1 + s2)"] + [x.replace(" s)", " s1 + s2)") for x in ex_a],
                 "return attr_distinct(s1, s2)", timeout=600, tier=T, expect="unknown", group="siblings", covers="single alphabetic characters (all of Unicode) stay distinct"))
    hs.append(mk("c12_attr_injective_ascii_alnum", "s1: str, s2: str", ["1 <= len(s1) <= 2", "1 <= len(s2) <= 2", "s1 != s2", "all(c.isascii() and c.isalnum() for c in s1 + s2)"],
                 "return attr_distinct(s1, s2)" if not ex_c else "return attr_distinct(s1, s2) or (s1[:1].isdigit() != s2[:1].isdigit())", timeout=300, group="siblings",
                 covers="ASCII alphanumeric names up to 2 chars stay distinct"))
    hs.append(mk("c12_attr_injective_letters2", "s1: str, s2: str", ["1 <= len(s1) <= 2", "1 <= len(s2) <= 2", "s1 != s2", "all(c.isalpha() for c in s1 + s2)"] + [x.replace(" s)", " s1 + s2)") for x in ex_a],
                 "return attr_distinct(s1, s2)", timeout=600, tier=T, expect="unknown", group="siblings", covers="alphabetic names (all of Unicode, <= 2 chars) stay distinct"))
    hs.append(mk("c12_attr_injective_reserved", "i: int, s2: str", ["0 <= i < 200", "len(s2) <= 1", "all(c.isalpha() or c == '_' for c in s2)"],
                 "names = sorted(set(RESERVED_PROPERTIES))\nn = names[i % len(names)]\nreturn n + s2 == n or n + s2 == n + '_' or attr_distinct(n, n + s2)" if ex_c else
                 "names = sorted(set(RESERVED_PROPERTIES))\nn = names[i % len(names)]\nreturn n + s2 == n or attr_distinct(n, n + s2)",
                 timeout=300, group="siblings", covers="reserved-word suffixing does not collide with a longer sibling name" + (" (except the known name_ collision)" if ex_c else "")))
    hs.append(mk("c12_siblings_survive", "i: int, j: int", ["0 <= i < 6", "0 <= j < 6", "i != j"],
                 "pool = ('a', 'A', 'class', 'a$', 'a.b', 'ab')\nreturn siblings_survive(pool[i], pool[j])", timeout=200, group="siblings",
                 covers="sibling properties keep their own schemas (names from a pool without known collisions)"))
    # ---- titles
    ex_t = ctx.excl("C12-title-no-leading-letter", "any(c.isascii() and c.isalnum() for c in t) and [c for c in t if c.isascii() and c.isalnum()][0].isalpha()")
    ex_u = ctx.excl("C12-title-shadows-used-name", "_title_format(t) not in sorted(used_names())")
    hs.append(mk("c12_title_valid1", "t: str", ["len(t) == 1"] + ex_t + ex_u, "return title_valid(t)", timeout=300, group="title",
                 covers="class name is a non-empty identifier, no keyword, no imported/used name (one arbitrary code point)"))
    hs.append(mk("c12_title_valid_context", "t: str", ["len(t) == 1", "ord(t[0]) < 128"], "return title_valid('ab' + t + 'cd')", timeout=300, group="title",
                 covers="every ASCII character inside a longer title"))
    hs.append(mk("c12_title_valid2", "t: str", ["len(t) == 2"] + ex_t + ex_u, "return title_valid(t)", timeout=600, group="title", tier=T, expect="unknown",
                 covers="titles of exactly 2 code points"))
    hs.append(mk("c12_title_valid3", "t: str", ["len(t) == 3"] + ex_t + ex_u, "return title_valid(t)", timeout=600, group="title", tier=T, expect="unknown",
                 covers="titles of exactly 3 code points"))
    hs.append(mk("c12_title_valid_ascii4", "t: str", ["1 <= len(t) <= 4", "all(c in 'aZ1 _-' for c in t)"] + ex_t + ex_u, "return title_valid(t)", timeout=600, group="title", tier=T, expect="unknown",
                 covers="titles up to 4 chars over {a, Z, 1, space, underscore, hyphen}"))
    hs.append(mk("c12_title_distinct", "i: int, j: int, k: int, same12: bool, same23: bool", ["0 <= i < 4", "0 <= j < 4", "0 <= k < 4"],
                 "return titles_distinct(i, j, k, same12, same23)", timeout=600, group="title",
                 covers="three object schemas with titles from {A, a, 'A 1', A_1}, equal or unequal bodies: class names pairwise distinct, generated module defines exactly them"))
    hs.append(mk("c12_title_distinct_positions", "k: int", ["0 <= k < 11"], "return titles_distinct_positions(concretize_int(k, 0, 10))", timeout=200, group="title",
                 covers="three different object schemas titled 'Point', one at each of 11 schema positions (tuple items, additionalItems, contains, anyOf, pattern/additional properties, dependencies, definitions, not/oneOf, type list, nested)"))
    # ---- reachability twins
    hs.append(mk("c12__symbol", "s: str", ["len(s) == 1", "ord(s[0]) < 128"], "return not (attr_valid(s) and not s.isalnum() and s not in '_- ')", kind="witness", timeout=60))
    hs.append(mk("c12__title", "t: str", ["1 <= len(t) <= 2"], "return not (title_valid(t) and len(_title_format(t)) >= 2)", kind="witness", timeout=60))
    return hs


def _title_format(t):
    from statham.schema.parser import _title_format as f

    return f(t)


def _demo_alnum():
    return not attr_valid("a²")


def _demo_collision():
    return not attr_distinct("\x00", "\x01") or not attr_distinct("a b", "a_b") or not attr_distinct("1", "_1")


def _demo_title_letter():
    from statham.schema.parser import _title_format as f

    return f("00") == "" or not f("123").isidentifier()


def _demo_title_shadow():
    from statham.schema.parser import _title_format as f

    return f("object") in used_names() and f("none") == "None"


def _demo_empty_name():
    return not attr_source("")


DEMOS = {
    "C12-empty-name-source": _demo_empty_name,
    "C12-attr-alnum-not-identifier": _demo_alnum,
    "C12-attr-collision": _demo_collision,
    "C12-title-no-leading-letter": _demo_title_letter,
    "C12-title-shadows-used-name": _demo_title_shadow,
}
