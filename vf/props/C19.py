"""C19 - generated type annotations are sound for every value a model can hold (E1)."""
from typing import List

from vf.harness import H, mk

EXPLANATION = (
    "For each element template placed under a property (required / optional / defaulted, plain and renamed) or as array items of a "
    "model, the annotation string produced by _Property.annotation is evaluated (concrete) into a type tree with typing, Maybe and "
    "the model classes; for every accepted symbolic value the runtime attribute of the built model must conform to it as a type "
    "checker reads it (List element types, Union members, NotPassed only under Maybe, int where float is announced, class -> "
    "isinstance). A bare (non-Maybe) annotation must imply required-or-defaulted and a value that is never NotPassed."
)
ASSUMPTIONS = ["conform() (vf/props/C19.py) is the reading of typing annotations: float admits int, bool is not admitted for int/float announcements only if the element excludes it (bool is a subclass of int for type checkers, so bool conforms to int)"]
FUNCTIONS = ["statham.schema.property:_Property.annotation", "statham.schema.elements.base:Element.annotation", "statham.schema.elements.array:Array.annotation",
             "statham.schema.elements.array:Array.item_annotations", "statham.schema.elements.composition:CompositionElement.annotation",
             "statham.schema.elements.composition:AllOf.annotation", "statham.schema.elements.meta:ObjectMeta.annotation",
             "statham.schema.elements.composition:_attempt_schemas", "statham.schema.elements.base:Element.construct"]


def conform(x, tp):
    import typing
    from vf.common import NotPassed, ObjectMeta

    if tp is typing.Any:
        return True
    if tp is None or tp is type(None):
        return x is None
    origin = typing.get_origin(tp)
    if origin is typing.Union:
        for a in typing.get_args(tp):
            if conform(x, a):
                return True
        return False
    if origin is list or tp is typing.List or tp is list:
        if not isinstance(x, list):
            return False
        args = typing.get_args(tp)
        if not args:
            return True
        for i in x:
            if not conform(i, args[0]):
                return False
        return True
    if tp is NotPassed:
        return isinstance(x, NotPassed)
    if tp is float:
        return isinstance(x, (int, float)) and not isinstance(x, NotPassed)
    if tp is int:
        return isinstance(x, int)
    if tp is str:
        return isinstance(x, str)
    if tp is bool:
        return isinstance(x, bool)
    if isinstance(tp, ObjectMeta):
        return isinstance(x, tp)
    raise ValueError("unsupported annotation %r" % (tp,))


def eval_annotation(text, classes):
    import typing
    from vf.common import NotPassed, Maybe

    ns = {"Any": typing.Any, "List": typing.List, "Union": typing.Union, "Maybe": Maybe, "None": None}
    ns.update(classes)
    return eval(text, ns)  # noqa: S307


def sound(make_elem, classes, required, v, supplied, src=None):
    """model M with one property p (source src) holding make_elem(); build from {src: v} or {}."""
    from vf.common import Object, Property, verdict, NotPassed, jcopy

    el = make_elem()
    M = Object.inline("M", properties={"p": Property(el, required=required, source=src)})
    prop = M.properties["p"]
    ann_text = prop.annotation
    tp = eval_annotation(ann_text, classes(el) if callable(classes) else classes)
    data = {(src or "p"): jcopy(v)} if supplied else {}
    ok, r = verdict(M, data)
    if not ok:
        return True
    val = r.p
    if not conform(val, tp):
        return False
    bare = not ann_text.startswith("Maybe[")
    if bare:
        has_default = not isinstance(getattr(el, "default", NotPassed()), NotPassed)
        if not (required or has_default):
            return False
        if isinstance(val, NotPassed):
            return False
    return True


def sound_items(make_elem, classes, v):
    """items of an array property of a model"""
    from vf.common import Object, Property, Array, verdict, jcopy

    el = make_elem()
    arr = Array(el)
    M = Object.inline("M", properties={"xs": Property(arr, required=True)})
    tp = eval_annotation(M.properties["xs"].annotation, classes(el) if callable(classes) else classes)
    ok, r = verdict(M, {"xs": jcopy(v)})
    if not ok:
        return True
    return conform(r.xs, tp)


def sound_overlap(make_elem, classes, required, v, supplied):
    """the property's JSON name also matches a patternProperties regex of the model"""
    from vf.common import Object, Property, Element, verdict, NotPassed, jcopy

    el = make_elem()
    M = Object.inline("M", properties={"ab": Property(el, required=required)}, patternProperties={"^a": Element(minProperties=0, minItems=0), "b$": Element()})
    ann_text = M.properties["ab"].annotation
    tp = eval_annotation(ann_text, classes(el) if callable(classes) else classes)
    ok, r = verdict(M, {"ab": jcopy(v)} if supplied else {})
    if not ok:
        return True
    val = r.ab
    if not conform(val, tp):
        return False
    if not ann_text.startswith("Maybe[") and isinstance(val, NotPassed):
        return False
    return True


def sound_inherited(m, use_base_first, h_inner, h_xs, h_f, h_s, x):
    """properties a SUBCLASS adds to (or inherits from) an already used base model: every attribute conforms to its annotation"""
    from vf.common import Object, ObjectMeta, Property, Array, Number, Integer, String, verdict, accepts, NotPassed
    from statham.schema.elements.meta import ObjectClassDict

    Inner = _inner(m)
    Base = Object.inline("Base", properties={"n_": Property(Integer(), source="n"), "w": Property(Inner)})
    if use_base_first:
        accepts(Base, {"n": 1})
        accepts(Base, {"w": {"x": m}})
    cd = ObjectClassDict()
    cd["inner"] = Property(Inner)
    cd["xs"] = Property(Array(Inner))
    cd["f"] = Property(Number(default=1.5))
    cd["s"] = Property(String(default="d"))
    Child = ObjectMeta("Child", (Base,), cd)
    data = {"n": x, "w": {"x": m + 1}}
    if h_inner:
        data["inner"] = {"x": x}
    if h_xs:
        data["xs"] = [{"x": x}, {"x": m}]
    if h_f:
        data["f"] = x
    if h_s:
        data["s"] = "s"
    ok, r = verdict(Child, data)
    if not ok:
        return True
    classes = {"Inner": Inner}
    for py, prop in Child.properties.items():
        tp = eval_annotation(prop.annotation, classes)
        if not hasattr(r, py):
            return False
        val = getattr(r, py)
        if not conform(val, tp):
            return False
        if not prop.annotation.startswith("Maybe[") and isinstance(val, NotPassed):
            return False
    return True


def reached(make_elem, required, v, supplied):
    from vf.common import Object, Property, accepts, jcopy

    M = Object.inline("M", properties={"p": Property(make_elem(), required=required)})
    return accepts(M, {"p": jcopy(v)} if supplied else {})


def _inner(m):
    from vf.common import Object, Property, Number

    return Object.inline("Inner", properties={"x": Property(Number(minimum=m), required=True)})


def _cls(el):
    """collect model classes reachable from el by name"""
    from vf.common import get_object_classes

    return {c.__name__: c for c in get_object_classes(el)}


SV = "Union[int, bool, str, None, List[int]]"
SVPRE = ["not isinstance(v, str) or len(v) <= 2", "not isinstance(v, list) or len(v) <= 2"]
OV = "Union[int, None, List[int], Dict[str, int]]"
OVPRE = ["not isinstance(v, list) or len(v) <= 2", "not isinstance(v, dict) or (len(v) <= 1 and all(k in ('x', 'y') for k in v))"]

# name: (hole args, element expr, value type, value pre, tier)
ELEMS = {
    "integer": ("m: int", "Integer(minimum=m)", SV, SVPRE, "quick"),
    "number": ("m: int", "Number(minimum=m)", SV, SVPRE, "quick"),
    "string_bool_null": ("m: int", "(String(), Boolean(), Null())[m % 3]", SV, SVPRE, "quick"),
    "untyped": ("m: int", "Element(minimum=m)", SV, SVPRE, "thorough"),
    "nothing": ("m: int", "Nothing()", SV, SVPRE, "thorough"),
    "array_number": ("m: int", "Array(Number(maximum=m))", SV, SVPRE, "quick"),
    "array_nested": ("m: int", "Array(Array(Integer(minimum=m)))", "Union[int, List[List[int]]]", ["not isinstance(v, list) or (len(v) <= 2 and all(len(x) <= 2 for x in v))"], "thorough"),
    "tuple_closed": ("m: int", "Array([Integer(minimum=m), Number()], additionalItems=False)", SV, SVPRE, "quick"),
    "tuple_open": ("m: int", "Array([Integer(minimum=m), String()])", SV, SVPRE, "thorough"),
    "tuple_addl_elem": ("m: int", "Array([Integer(minimum=m)], additionalItems=Number())", SV, SVPRE, "quick"),
    "tuple_addl_any": ("m: int", "Array([Integer(minimum=m)], additionalItems=Element())", SV, SVPRE, "thorough"),
    "tuple_addl_null": ("m: int", "Array([String(maxLength=2), Integer(minimum=m)], additionalItems=Null())", "Union[int, List[Union[int, str, None]]]", ["not isinstance(v, list) or (len(v) <= 3 and all((not isinstance(x, str)) or len(x) <= 1 for x in v))"], "quick"),
    "tuple_null_addl_int": ("m: int", "Array([Null()], additionalItems=Integer(minimum=m))", "Union[int, List[Union[int, None]]]", ["not isinstance(v, list) or len(v) <= 3"], "quick"),
    "tuple_addl_nothing": ("m: int", "Array([Integer(minimum=m)], additionalItems=Nothing())", "Union[int, List[Union[int, None]]]", ["not isinstance(v, list) or len(v) <= 2"], "thorough"),
    "array_null": ("m: int", "Array(Null(), maxItems=2)", "Union[int, List[Union[int, None]]]", ["not isinstance(v, list) or len(v) <= 2"], "thorough"),
    "anyof_null_first": ("m: int", "AnyOf(Null(), Integer(minimum=m), Array(Null()))", "Union[int, None, List[Union[int, None]]]", ["not isinstance(v, list) or len(v) <= 2"], "quick"),
    "anyof": ("m: int", "AnyOf(Integer(minimum=m), Array(Number()), Null())", SV, SVPRE, "quick"),
    "anyof_any": ("m: int", "AnyOf(Integer(minimum=m), Element(maximum=m))", SV, SVPRE, "thorough"),
    "oneof": ("m: int", "OneOf(Integer(minimum=m), Number(maximum=m), String())", SV, SVPRE, "quick"),
    "allof_typed_first": ("m: int", "AllOf(Number(minimum=m), Integer())", SV, SVPRE, "quick"),
    "allof_untyped_first": ("m: int", "AllOf(Element(minimum=m), Number())", SV, SVPRE, "quick"),
    "allof_union": ("m: int", "AllOf(Element(minimum=m), AnyOf(Integer(), String()))", SV, SVPRE, "quick"),
    "allof_arrays": ("m: int", "AllOf(Element(maxItems=2), Array(Number(minimum=m)))", SV, SVPRE, "thorough"),
    "not": ("m: int", "Not(Integer(minimum=m))", SV, SVPRE, "thorough"),
    "allof_list_any_first": ("m: int", "AllOf(Array(Element(), uniqueItems=True), Array(_inner(m)))", "Union[int, List[Dict[str, int]]]", ["not isinstance(v, list) or (len(v) <= 2 and all(len(d) <= 1 and all(k in ('x', 'y') for k in d) for d in v))"], "quick"),
    "allof_nested_list_any_first": ("m: int", "AllOf(Array(Array(Element())), Array(Array(_inner(m)), maxItems=1))", "Union[int, List[List[Dict[str, int]]]]", ["not isinstance(v, list) or (len(v) <= 1 and all(len(x) <= 1 and all(len(d) <= 1 and all(k in ('x', 'y') for k in d) for d in x) for x in v))"], "quick"),
    "parsed_array_allof": ("m: int", 'parse_s({"type": "array", "uniqueItems": True, "allOf": [{"type": "array", "items": {"type": "object", "title": "Inner", "properties": {"x": {"type": "number", "minimum": m}}}}]})', "Union[int, List[Dict[str, int]]]", ["not isinstance(v, list) or (len(v) <= 2 and all(len(d) <= 1 and all(k in ('x', 'y') for k in d) for d in v))"], "quick"),
    # a later member whose annotation text is CONTAINED in an earlier member's (List[int] / int, InnerMost / Inner, List[Any] / Any)
    "anyof_container_before_item": ("m: int", "AnyOf(Array(Integer(minimum=m)), Integer(), String())", SV, SVPRE, "quick"),
    "oneof_list_any_before_any": ("m: int", "OneOf(Array(Element(), minItems=1), Element(maximum=m, maxItems=0))", SV, SVPRE, "quick"),
    "parsed_typelist_array_first": ("m: int", 'parse_s({"type": ["array", "integer", "string"], "minimum": m, "items": {"type": "integer"}})', SV, SVPRE, "quick"),
    "anyof_class_name_contains": ("m: int", 'AnyOf(Object.inline("InnerMost", properties={"y": Property(Integer(), required=True)}), _inner(m))', OV, OVPRE, "quick"),
    "class": ("m: int", "_inner(m)", OV, OVPRE, "quick"),
    "array_of_class": ("m: int", "Array(_inner(m))", "Union[int, List[Dict[str, int]]]", ["not isinstance(v, list) or (len(v) <= 2 and all(len(d) <= 1 and all(k in ('x', 'y') for k in d) for d in v))"], "quick"),
    "anyof_class": ("m: int", "AnyOf(_inner(m), Integer())", OV, OVPRE, "quick"),
    "allof_class_first": ("m: int", "AllOf(_inner(m), Element(minProperties=1))", OV, OVPRE, "quick"),
    "allof_class_second": ("m: int", "AllOf(Element(minProperties=1), _inner(m))", OV, OVPRE, "quick"),
    "oneof_class_untyped": ("m: int", "OneOf(_inner(m), Element(required=['y']))", OV, OVPRE, "thorough"),
    "parsed_allof_object": ("m: int", 'parse_s({"allOf": [{"minProperties": 1}, {"type": "object", "title": "Inner", "properties": {"x": {"type": "number", "minimum": m}}}]})', OV, OVPRE, "quick"),
    "parsed_typelist": ("m: int", 'parse_s({"type": ["integer", "array", "null"], "minimum": m, "items": {"type": "number"}})', SV, SVPRE, "quick"),
    "parsed_object_anyof": ("m: int", 'parse_s({"type": "object", "title": "Inner", "properties": {"x": {"type": "number"}}, "anyOf": [{"required": ["x"]}, {"required": ["y"]}]})', OV, OVPRE, "thorough"),
}

DEFAULTED = {
    "integer_default": ("m: int, d: int", "Integer(minimum=m, default=d)", ["d >= m"]),
    "number_default": ("m: int, d: int", "Number(minimum=m, default=d)", ["d >= m"]),
    "array_default": ("m: int, d: int", "Array(Number(), default=[d], maxItems=2)", []),
    "anyof_default": ("m: int, d: int", "AnyOf(Integer(minimum=m), Null(), default=None)", []),
    "class_default": ("m: int, d: int", 'Object.inline("Inner", properties={"x": Property(Number(minimum=m), required=True)}, default={"x": d})', ["d >= m"]),
    "class_default_empty": ("m: int, d: int", 'Object.inline("Inner", properties={"x": Property(Number(minimum=m))}, default={})', []),
    "falsy_defaults": ("m: int, d: int", '(Integer(maximum=m, default=0), String(default=""), Array(Integer(), default=[]), Boolean(default=False), Null(default=None), Number(default=0), Element(default=0), AnyOf(Integer(), String(), default=""))[d % 8]', ["m >= 0"]),
    "parsed_falsy_defaults": ("m: int, d: int", 'parse_s(({"type": "object", "title": "Inner", "default": {}}, {"type": "array", "default": []}, {"type": ["integer", "string"], "default": 0}, {"anyOf": [{"type": "boolean"}, {"type": "null"}], "default": False})[d % 4])', []),
}


def harnesses(ctx) -> List[H]:
    hs: List[H] = []
    for name, (hargs, expr, vt, vpre, tier) in ELEMS.items():
        if name in ("allof_class_second", "parsed_allof_object"):
            # AllOf builds its result with its FIRST element but is annotated with the object class
            vpre = vpre + ctx.excl("C19-allof-untyped-first-object", "not isinstance(v, dict)")
        body = f"""
def make_elem():
    return {expr}
return sound(make_elem, _cls, rq, v, sup, ("p q" if ren else None))
"""
        hs.append(mk(f"c19_prop_{name}", f"{hargs}, rq: bool, sup: bool, ren: bool, v: {vt}", vpre, body, tier=tier, timeout=150, group="property",
                     covers=f"{expr} under a property (required/optional, supplied/omitted, renamed/plain by flags)"))
        body = f"""
def make_elem():
    return {expr}
return sound_items(make_elem, _cls, [v, v] if two else [v])
"""
        hs.append(mk(f"c19_items_{name}", f"{hargs}, two: bool, v: {vt}", vpre, body, tier="thorough", timeout=150, group="items",
                     covers=f"{expr} as items of an array property"))
    for name in ("class", "array_of_class", "number", "class_default_empty"):
        if name in ELEMS:
            hargs, expr, vt, vpre, _tier = ELEMS[name]
            pre_d = []
        else:
            hargs, expr, pre_d = DEFAULTED[name]
            vt, vpre = "Union[int, None, List[int], Dict[str, int]]", OVPRE
        body = f"""
def make_elem():
    return {expr}
return sound_overlap(make_elem, _cls, rq, v, sup)
"""
        hs.append(mk(f"c19_overlap_{name}", f"{hargs}, rq: bool, sup: bool, v: {vt}", list(pre_d) + list(vpre), body, timeout=150, group="overlap",
                     covers=f"{expr} under a property whose name also matches patternProperties regexes"))
    for name, (hargs, expr, pre) in DEFAULTED.items():
        body = f"""
def make_elem():
    return {expr}
return sound(make_elem, _cls, rq, v, sup, ("p q" if ren else None))
"""
        hs.append(mk(f"c19_prop_{name}", f"{hargs}, rq: bool, sup: bool, ren: bool, v: Union[int, None, List[int], Dict[str, int]]",
                     pre + OVPRE, body, timeout=150, group="defaulted", covers=f"{expr} (default valid by construction)"))
    hs.append(mk("c19_inherited", "m: int, ubf: bool, h1: bool, h2: bool, h3: bool, h4: bool, x: int", [], "return sound_inherited(m, ubf, h1, h2, h3, h4, x)",
                 timeout=200, group="property", covers="properties added by / inherited into a subclass of an (optionally already used) base model: Inner, List[Inner], defaulted Number and String"))
    hs.append(mk("c19_inherited__reach", "m: int, ubf: bool, h1: bool, h2: bool, h3: bool, h4: bool, x: int", [], """
from vf.common import verdict
return not (ubf and h1 and h2 and x >= m and sound_inherited(m, ubf, h1, h2, h3, h4, x))
""", kind="witness", timeout=60, group="property"))
    hs.append(mk("c19__reach_supplied", "m: int, v: Union[int, None]", [], """
def make_elem():
    return Integer(minimum=m)
return not reached(make_elem, True, v, True)
""", kind="witness", timeout=20))
    hs.append(mk("c19__reach_omitted", "m: int, v: Union[int, None]", [], """
def make_elem():
    return Integer(minimum=m)
return not reached(make_elem, False, v, False)
""", kind="witness", timeout=20))
    return hs


def _demo_allof_class_second():
    from vf.common import AllOf, Element

    def make_elem():
        return AllOf(Element(minProperties=1), _inner(0))

    return not sound(make_elem, _cls, True, {"x": 1}, True)


DEMOS = {"C19-allof-untyped-first-object": _demo_allof_class_second}
