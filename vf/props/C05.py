"""C05 - defaults fill omitted values and never override supplied ones (E1)."""
from typing import List

from vf.harness import H, mk

EXPLANATION = (
    "Object templates (class-based, untyped, parsed; plain and renamed properties; scalar, nested-object and array defaults) with the "
    "default d and the constraint that makes it valid/invalid symbolic; the supplied subset is the symbolic dict value. For every "
    "accepted input each declared property is read under its Python name and compared with convert(v) when supplied, with "
    "convert(d) when omitted and d is valid, with d itself when invalid (convert = a fresh equal element, real code). Defaults never "
    "change the verdict (compared with the same template without defaults)."
)
ASSUMPTIONS = ["'converted as if supplied' is evaluated by calling a freshly built equal element of the real library"]
FUNCTIONS = ["statham.schema.elements.base:Element.__call__", "statham.schema.elements.object:Object.__new__",
             "statham.schema.elements.object:Object.__init__", "statham.schema.elements.properties:Properties.__call__",
             "statham.schema.property:_PropertyDict.required"]


def _get(r, py):
    return r[py] if isinstance(r, dict) else getattr(r, py)


def expected_default(fresh, d):
    from vf.common import ValidationError

    try:
        return fresh()(d)
    except (ValidationError, TypeError):
        return d


def defaults_ok(make, v):
    """make(with_defaults) -> (callable model, [(pyname, source, fresh_element_factory, default)])"""
    from vf.common import verdict, result_eq, jcopy

    M, specs = make(True)
    Mn, _ = make(False)
    ok, r = verdict(M, jcopy(v))
    okn, _rn = verdict(Mn, jcopy(v))
    if ok != okn:
        return False  # a default changed the verdict (or raised)
    if not ok:
        return True
    for py, src, fresh, d in specs:
        got = _get(r, py)
        if src in v:
            if not result_eq(got, fresh()(v[src])):
                return False
        else:
            if not result_eq(got, expected_default(fresh, d)):
                return False
    return True


def omitted_reached(make, v):
    from vf.common import verdict, jcopy

    M, specs = make(True)
    ok, r = verdict(M, jcopy(v))
    return ok and any(src not in v for _py, src, _f, _d in specs)


# ------------------------------------------------------------------ templates
def t_class(m, d1, d2, wd, typed=True):
    from vf.common import Object, Element, Property, Integer

    kw = (lambda d: {"default": d}) if wd else (lambda d: {})
    e1 = lambda: Integer(minimum=m, **kw(d1))
    e2 = lambda: Integer(maximum=m, **kw(d2))
    props = {"a": Property(e1(), required=wd), "b_": Property(e2(), source="b")}
    M = Object.inline("M", properties=props) if typed else Element(properties=props)
    return M, [("a", "a", e1, d1), ("b_", "b", e2, d2)]


def t_inherited(m, d1, d2, wd, ubf):
    """the defaulted / renamed properties are INHERITED from a base class (optionally already used); the child adds one"""
    from vf.common import Object, ObjectMeta, Property, Integer, accepts
    from statham.schema.elements.meta import ObjectClassDict

    kw = (lambda d: {"default": d}) if wd else (lambda d: {})
    e1 = lambda: Integer(minimum=m, **kw(d1))
    e2 = lambda: Integer(maximum=m, **kw(d2))
    Base = Object.inline("Base", properties={"a": Property(e1(), required=wd), "b_": Property(e2(), source="b")})
    if ubf:
        accepts(Base, {"a": m, "b": m})
    cd = ObjectClassDict()
    cd["c"] = Property(Integer())
    Child = ObjectMeta("Child", (Base,), cd)
    return Child, [("a", "a", e1, d1), ("b_", "b", e2, d2)]


def t_parsed(m, d1, d2, wd, typed=True):
    from vf.common import parse_s, Integer

    pa = {"type": "integer", "minimum": m}
    pb = {"type": "integer", "maximum": m}
    if wd:
        pa["default"] = d1
        pb["default"] = d2
    S = {"properties": {"a": pa, "a b": pb}}
    if typed:
        S.update({"type": "object", "title": "T"})
    if wd and typed:
        S["required"] = ["a b"]  # documented deviation: waived for typed objects (class-based required)
    kw = (lambda d: {"default": d}) if wd else (lambda d: {})
    return parse_s(S), [("a", "a", lambda: Integer(minimum=m, **kw(d1)), d1), ("a_b", "a b", lambda: Integer(maximum=m, **kw(d2)), d2)]


def t_nested(m, d, wd):
    from vf.common import Object, Property, Integer, Array

    def inner():
        kw = {"default": {"x": d}} if wd else {}
        return Object.inline("Inner", properties={"x": Property(Integer(minimum=m), required=True)}, **kw)

    def arr():
        kw = {"default": [d, 0]} if wd else {}
        return Array(Integer(maximum=m), **kw)

    M = Object.inline("Outer", properties={"in_": Property(inner(), source="in"), "arr": Property(arr(), required=wd)})
    return M, [("in_", "in", inner, {"x": d}), ("arr", "arr", arr, [d, 0])]


def t_class_default(m, d1, d2, wd):
    """model class WITH its own class-level default; supplied values (incl. {}) must win"""
    from vf.common import Object, Property, Integer

    kw = (lambda d: {"default": d}) if wd else (lambda d: {})
    e1 = lambda: Integer(minimum=m, **kw(d1))
    ckw = {"default": {"a": d2, "b": d2}} if wd else {}
    M = Object.inline("M", properties={"a": Property(e1()), "b_": Property(Integer(), source="b")}, **ckw)
    return M, [("a", "a", e1, d1)]


def t_nested_class_default(m, d1, d2, wd):
    from vf.common import Object, Property, Integer

    def inner():
        kw = {"default": {"x": d2}} if wd else {}
        return Object.inline("Inner", properties={"x": Property(Integer(minimum=m, **({"default": d1} if wd else {})))}, **kw)

    M = Object.inline("Outer", properties={"in_": Property(inner(), source="in")})
    return M, [("in_", "in", inner, {"x": d2})]


def t_pattern_overlap(m, d1, d2, wd, typed=True):
    """a defaulted declared property whose JSON name also matches a patternProperties regex"""
    from vf.common import Object, Element, Property, Integer, AllOf

    kw = (lambda d: {"default": d}) if wd else (lambda d: {})
    pat = lambda: Integer(maximum=m)
    e1 = lambda: AllOf(Integer(**kw(d1)), pat(), **kw(d1))
    e2 = lambda: AllOf(Integer(minimum=0, **kw(d2)), pat(), **kw(d2))
    props = {"ab": Property(Integer(**kw(d1))), "a_": Property(Integer(minimum=0, **kw(d2)), source="a")}
    ckw = dict(patternProperties={"^a": pat()})
    M = Object.inline("M", properties=props, **ckw) if typed else Element(properties=props, **ckw)
    return M, [("ab", "ab", e1, d1), ("a_", "a", e2, d2)]


def t_string(n, s, wd):
    from vf.common import Element, Property, String

    kw = {"default": s} if wd else {}
    e = lambda: String(maxLength=n, **kw)
    M = Element(properties={"class_": Property(e(), source="class", required=wd)})
    return M, [("class_", "class", e, s)]


def bare_ok(make_el, d):
    """calling any element / model class with no value yields its default on the same terms"""
    from vf.common import NotPassed, result_eq, ValidationError

    el = make_el()
    try:
        got = el(NotPassed())
    except (ValidationError, TypeError):
        return False
    return result_eq(got, expected_default(make_el, d))


def default_fresh_ok(d, kind):
    """mutating the default value taken from one model must not show up in the next model built from data
    that omits the property (nor in the schema's own default)"""
    from vf.common import Object, Element, Property, Array, Integer, jeq

    if kind == 0:
        make = lambda: Object.inline("M", properties={"tags": Property(Array(Integer(), default=[d])), "n": Property(Integer(default=d))})
        get, mutate, want = (lambda r: r.tags), (lambda x: x.append(99)), [d]
    elif kind == 1:
        make = lambda: Element(properties={"meta": Property(Element(default={"k": d}))})
        get, mutate, want = (lambda r: r["meta"]), (lambda x: x.__setitem__("extra", 1)), {"k": d}
    elif kind == 2:
        make = lambda: Object.inline("M", properties={"rows": Property(Array(Array(Integer()), default=[[d]]), source="r o w s")})
        get, mutate, want = (lambda r: r.rows), (lambda x: x[0].append(7)), [[d]]
    else:
        make = lambda: Array(Integer(), default=[d, d])
        M = make()
        from vf.common import NotPassed

        first = M(NotPassed())
        first.append(5)
        return jeq(M(NotPassed()), [d, d]) and jeq(M.default, [d, d])
    M = make()
    first = M({})
    mutate(get(first))
    second = M({})
    third = M({})
    return jeq(get(second), want) and jeq(get(third), want) and get(second) is not get(third)


def repeated_default_ok(kind, m, d, k):
    """object defaults used more than once: every construction that omits the value gives what the first one gave, an invalid
    object default comes back exactly as declared, and the declared default itself is never edited"""
    from vf.common import Object, Element, Property, Integer, NotPassed, jeq, jcopy, verdict, result_eq

    declared = {"name": d}
    if kind == 0:  # class-level default next to a key-counting keyword; valid iff d >= m
        make = lambda: Object.inline("M", properties={"name": Property(Integer(minimum=m)), "size": Property(Integer()), "s_": Property(Integer(), source="s")},
                                     maxProperties=1 + k % 2, default=jcopy(declared))
        build = lambda M: M(NotPassed())
    elif kind == 1:  # untyped element default
        make = lambda: Element(properties={"name": Property(Integer(minimum=m)), "size": Property(Integer())}, propertyNames=Element(maxLength=4 + k % 2), default=jcopy(declared))
        build = lambda M: M(NotPassed())
    else:  # nested: the parent is built with the nested property omitted
        inner = lambda: Object.inline("In", properties={"name": Property(Integer(minimum=m)), "size": Property(Integer())}, maxProperties=1 + k % 2, default=jcopy(declared))
        make = lambda: Object.inline("Out", properties={"in_": Property(inner(), source="in")})
        build = lambda M: M({}).in_
    M = make()
    first = build(M)
    second = build(M)
    third = build(M)
    if not (result_eq(first, second) and result_eq(second, third)):
        return False
    fresh = build(make())
    if not result_eq(first, fresh):
        return False
    valid = d >= m
    if not valid:
        # returned as-is: exactly the declared value
        if not (isinstance(first, dict) and jeq(dict(first), declared)):
            return False
    holder = M if kind < 2 else M.properties["in_"].element
    return jeq(holder.default, declared)


def harnesses(ctx) -> List[H]:
    hs: List[H] = []
    DV = "Dict[str, int]"
    pre_ab = ["len(v) <= 2", "all(k in ('a', 'b', 'x') for k in v)"]
    # renamed defaulted property omitted -> NotPassed  (C05-renamed-default)
    fams = [
        ("class_typed", "m: int, d1: int, d2: int", "t_class(m, d1, d2, wd, True)", DV, pre_ab),
        ("class_untyped", "m: int, d1: int, d2: int", "t_class(m, d1, d2, wd, False)", DV, pre_ab),
        ("parsed_typed", "m: int, d1: int, d2: int", "t_parsed(m, d1, d2, wd, True)", DV, ["len(v) <= 2", "all(k in ('a', 'a b', 'x') for k in v)"]),
        ("parsed_untyped", "m: int, d1: int, d2: int", "t_parsed(m, d1, d2, wd, False)", DV, ["len(v) <= 2", "all(k in ('a', 'a b', 'x') for k in v)"]),
        ("inherited", "m: int, d1: int, d2: int, ubf: bool", "t_inherited(m, d1, d2, wd, ubf)", DV, pre_ab),
        ("pattern_overlap_typed", "m: int, d1: int, d2: int", "t_pattern_overlap(m, d1, d2, wd, True)", DV, ["len(v) <= 2", "all(k in ('a', 'ab', 'x') for k in v)"]),
        ("pattern_overlap_untyped", "m: int, d1: int, d2: int", "t_pattern_overlap(m, d1, d2, wd, False)", DV, ["len(v) <= 2", "all(k in ('a', 'ab', 'x') for k in v)"]),
        ("class_default", "m: int, d1: int, d2: int", "t_class_default(m, d1, d2, wd)", DV, pre_ab),
        ("nested_class_default", "m: int, d1: int, d2: int", "t_nested_class_default(m, d1, d2, wd)", "Dict[str, Dict[str, int]]", ["len(v) <= 1", "all(k in ('in', 'x') for k in v)", "all(len(x) <= 1 and all(k in ('x', 'y') for k in x) for x in v.values())"]),
        ("nested", "m: int, d: int", "t_nested(m, d, wd)", "Dict[str, List[int]]", ["len(v) <= 1", "all(k in ('arr', 'x') for k in v)", "all(len(x) <= 2 for x in v.values())"]),
        ("string", "n: int, s: str", "t_string(n, s, wd)", "Dict[str, str]", ["len(v) <= 1", "all(k in ('class', 'x') for k in v)", "all(len(x) <= 2 for x in v.values())", "len(s) <= 2", "n >= 0"]),
    ]
    for name, hargs, make, vt, pre in fams:
        body = f"""
def make(wd):
    return {make}
return defaults_ok(make, v)
"""
        hs.append(mk(f"c05_{name}", f"{hargs}, v: {vt}", pre, body, timeout=120, group="object", covers=make))
        body = f"""
def make(wd):
    return {make}
return not omitted_reached(make, v)
"""
        hs.append(mk(f"c05_{name}__omitted", f"{hargs}, v: {vt}", pre, body, kind="witness", timeout=30, group="object"))
    hs.append(mk("c05_default_not_shared", "d: int, kind: int", ["0 <= kind < 4"], "return default_fresh_ok(d, concretize_int(kind, 0, 3))", timeout=120, group="object",
                 covers="container defaults (list, dict, nested list under a renamed property, bare array element): a second/third build is unaffected by mutating the first result"))
    hs.append(mk("c05_repeated_object_default", "kind: int, m: int, d: int, k: int", ["0 <= kind < 3"], "return repeated_default_ok(concretize_int(kind, 0, 2), m, d, k)", timeout=120, group="object",
                 covers="class-level / untyped / nested object defaults (valid or invalid by the solver's choice) next to maxProperties / propertyNames: three constructions and a fresh model agree, an invalid default comes back exactly as declared, the declared default is not edited"))
    bare = [
        ("integer", "m: int, d: int", [], "Integer(minimum=m, default=d)", "d"),
        ("untyped", "m: int, d: int", [], "Element(maximum=m, default=d)", "d"),
        ("array", "m: int, d: int", [], "Array(Integer(), maxItems=m, default=[d])", "[d]"),
        ("anyof", "m: int, d: int", [], "AnyOf(Integer(minimum=m), String(), default=d)", "d"),
        ("class", "m: int, d: int", [], 'Object.inline("M", properties={"x": Property(Integer(minimum=m), required=True)}, default={"x": d})', '{"x": d}'),
        ("nodefault", "m: int, d: int", [], "Integer(minimum=m)", "NotPassed()"),
        ("class_nodefault", "m: int, d: int", [], 'Object.inline("M", properties={"x": Property(Integer(minimum=m))})', "NotPassed()"),
        ("parsed_falsy", "d: Union[int, bool, None, str]", ["not isinstance(d, str) or len(d) <= 1"], 'parse_s({"type": ["integer", "boolean", "null", "string"], "default": d})', "d"),
    ]
    for name, hargs, pre, el, d in bare:
        body = f"""
def make_el():
    return {el}
return bare_ok(make_el, {d})
"""
        hs.append(mk(f"c05_bare_{name}", hargs, pre, body, timeout=60, group="bare", covers=f"{el}(NotPassed())"))
    return hs


def _demo_renamed_default():
    from vf.common import Object, Property, Integer, NotPassed

    M = Object.inline("M", properties={"b_": Property(Integer(default=5), source="b")})
    return isinstance(M({}).b_, NotPassed)


def _demo_pattern_overlap():
    from vf.common import Element, Property, Integer, NotPassed

    E = Element(properties={"ab": Property(Integer(default=5))}, patternProperties={"^a": Integer(maximum=9)})
    return isinstance(E({})["ab"], NotPassed)


DEMOS = {"C05-renamed-default": _demo_renamed_default, "C05-pattern-overlap-default": _demo_pattern_overlap}
