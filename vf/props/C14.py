"""C14 - concurrent validation against shared models equals sequential validation (E1 write monitor + E3 schedule query)."""
import json
import os
import threading
from typing import List

from vf.harness import H, mk

EXPLANATION = (
    "CrossHair cannot execute threads symbolically; the property is decided in reduced form. Step 1 (E1, all inputs in the shape): "
    "while el(v) runs, every store to an object that existed before the call - attribute stores on Element / _Property / model "
    "classes (monitored __setattr__), mutations of the tree's lists and dicts (traced container subclasses substituted for them), "
    "the format registry - must write the value already present. If z3 confirms this for all inputs, concurrent calls cannot observe "
    "each other: every shared read returns the initial value under ANY schedule, so each thread behaves as in its solo run and the "
    "tree is unchanged (the schedule quantifier is discharged by this non-interference argument). Step 2 (E3, only when step 1 finds "
    "an effective shared write): the shared-location read/write events of two calls recorded from the real code on the "
    "counterexample inputs become a z3 problem over event timestamps (program order, read-sees-latest-write); a schedule in which a "
    "read observes a foreign value is replayed on real threads with the monitor blocking each event until its turn; only a replay "
    "whose verdict/result/tree differs from the sequential run is a VIOLATION."
)
ASSUMPTIONS = [
    "2 threads, 1 call each, atomicity at attribute-access granularity (GIL)",
    "completeness of the monitor: C-level mutation of a shared builtin container that was not substituted would be missed; the substitution walk is the C08 snapshot walk",
    "the reduction from 'all schedules' to 'no effective shared write' is an argument, not a mechanised proof",
]
FUNCTIONS = ["statham.schema.elements.base:Element.__call__", "statham.schema.elements.properties:Properties.__init__", "statham.schema.elements.properties:Properties.property",
             "statham.schema.elements.items:Items.property", "statham.schema.property:_Property.bind", "statham.schema.property:_Property.evolve",
             "statham.schema.validation.object:Required.from_element"]

_MUTATORS_LIST = ("append", "extend", "insert", "pop", "remove", "clear", "sort", "reverse", "__setitem__", "__delitem__", "__iadd__", "__imul__")
_MUTATORS_DICT = ("__setitem__", "__delitem__", "pop", "popitem", "clear", "update", "setdefault")


class Monitor:
    """records effective writes to pre-existing shared objects"""

    def __init__(self):
        self.shared = set()
        self.keep = []
        self.effective = []
        self.active = False

    def add(self, obj):
        self.shared.add(id(obj))
        self.keep.append(obj)

    def on_setattr(self, obj, name, value):
        if not self.active or id(obj) not in self.shared:
            return
        try:
            old = object.__getattribute__(obj, name) if not isinstance(obj, type) else type.__getattribute__(obj, name)
            missing = False
        except AttributeError:
            old, missing = None, True
        if missing or not (old is value or _same(old, value)):
            self.effective.append(("setattr", type(obj).__name__, name))

    def on_mutation(self, obj, method):
        if self.active and id(obj) in self.shared:
            self.effective.append(("mutate", type(obj).__name__, method))


def _same(a, b):
    from vf.common import NotPassed

    if isinstance(a, NotPassed) or isinstance(b, NotPassed):
        return isinstance(a, NotPassed) and isinstance(b, NotPassed)
    if type(a) is not type(b):
        return False
    if isinstance(a, (str, int, float, bool, type(None))):
        return a == b
    return a is b


MON = Monitor()


class TList(list):
    pass


class TDict(dict):
    pass


def _wrap_mutators(cls, base, names):
    for n in names:
        if not hasattr(base, n):
            continue
        orig = getattr(base, n)

        def make(orig, n):
            def m(self, *a, **kw):
                MON.on_mutation(self, n)
                return orig(self, *a, **kw)

            return m

        setattr(cls, n, make(orig, n))


_wrap_mutators(TList, list, _MUTATORS_LIST)
_wrap_mutators(TDict, dict, _MUTATORS_DICT)
_installed = [False]


def install_monitor():
    if _installed[0]:
        return
    _installed[0] = True
    from vf.common import Element, _Property, ObjectMeta, _PropertyDict

    def elem_setattr(self, name, value):
        MON.on_setattr(self, name, value)
        object.__setattr__(self, name, value)

    def meta_setattr(cls, name, value):
        MON.on_setattr(cls, name, value)
        type.__setattr__(cls, name, value)

    Element.__setattr__ = elem_setattr
    _Property.__setattr__ = elem_setattr
    ObjectMeta.__setattr__ = meta_setattr
    for n in _MUTATORS_DICT:
        if n == "__setitem__":
            orig = _PropertyDict.__setitem__
        else:
            orig = getattr(dict, n)

        def make(orig, n):
            def m(self, *a, **kw):
                MON.on_mutation(self, n)
                return orig(self, *a, **kw)

            return m

        setattr(_PropertyDict, n, make(orig, n))


def share_tree(el, _seen=None):
    """register every object of the element tree as shared; substitute traced containers for plain lists/dicts"""
    from vf.common import Element, _Property, ObjectMeta, _PropertyDict, NotPassed

    if _seen is None:
        _seen = set()
    if id(el) in _seen:
        return el
    _seen.add(id(el))
    if isinstance(el, (Element, _Property)):
        MON.add(el)
        if isinstance(el, ObjectMeta):
            names = ["default", "const", "enum", "required", "properties", "patternProperties", "additionalProperties", "propertyNames", "dependencies"]
            get = lambda n: type.__getattribute__(el, n) if n != "properties" else el.properties
            put = lambda n, val: type.__setattr__(el, n, val)
        elif isinstance(el, _Property):
            names = ["element", "parent"]
            get = lambda n: getattr(el, n)
            put = lambda n, val: object.__setattr__(el, n, val)
        else:
            names = list(vars(el))
            get = lambda n: vars(el)[n]
            put = lambda n, val: object.__setattr__(el, n, val)
        for n in names:
            try:
                val = get(n)
            except AttributeError:
                continue
            if n == "parent":
                continue
            new = share_tree(val, _seen)
            if new is not val and n not in ("properties",):
                put(n, new)
        return el
    if isinstance(el, _PropertyDict):
        MON.add(el)
        for p in el.values():
            share_tree(p, _seen)
        return el
    if type(el) is list:
        t = TList(share_tree(x, _seen) for x in el)
        MON.add(t)
        return t
    if type(el) is dict:
        t = TDict((k, share_tree(x, _seen)) for k, x in el.items())
        MON.add(t)
        return t
    return el


def no_interference(make, v):
    """step 1: no effective write to a pre-existing object during el(v)"""
    from vf.common import verdict, jcopy
    from statham.schema.validation.format import format_checker

    install_monitor()
    global MON
    MON.shared.clear()
    MON.keep.clear()
    MON.effective.clear()
    el = make()
    el = share_tree(el)
    reg_before = dict(format_checker._callable_register)
    MON.active = True
    try:
        verdict(el, jcopy(v))
    finally:
        MON.active = False
    if dict(format_checker._callable_register) != reg_before:
        return False
    return len(MON.effective) == 0


def monitor_sees(make):
    """witness: the monitor does see idempotent traffic on shared objects (it is wired in)"""
    from vf.common import verdict

    install_monitor()
    MON.shared.clear()
    MON.keep.clear()
    MON.effective.clear()
    el = share_tree(make())
    seen = [0]
    orig = MON.on_setattr

    def counting(obj, name, value):
        if id(obj) in MON.shared:
            seen[0] += 1
        return orig(obj, name, value)

    MON.on_setattr = counting
    MON.active = True
    try:
        verdict(el, {"a": 1})
    finally:
        MON.active = False
        MON.on_setattr = orig
    return seen[0] > 0


# ------------------------------------------------------------------ step 2: threads (replay side)
def threads_equal_sequential(make, v1, v2, rounds=200):
    """run the two calls on real threads (barrier start, many rounds) and compare with the solo runs + tree snapshot"""
    from vf.common import verdict, result_eq, snapshot, jcopy

    el = make()
    s0 = snapshot(el)
    solo = [verdict(make(), jcopy(v1)), verdict(make(), jcopy(v2))]
    import sys

    old = sys.getswitchinterval()
    sys.setswitchinterval(1e-6)
    try:
        for _ in range(rounds):
            el = make()
            out = [None, None]
            bar = threading.Barrier(2)

            def run(i, v):
                bar.wait()
                out[i] = verdict(el, jcopy(v))

            ts = [threading.Thread(target=run, args=(0, v1)), threading.Thread(target=run, args=(1, v2))]
            for t in ts:
                t.start()
            for t in ts:
                t.join()
            for i in (0, 1):
                if out[i] is None or out[i][0] != solo[i][0] or (solo[i][0] and not result_eq(out[i][1], solo[i][1])):
                    return False
            if snapshot(el) != s0:
                return False
    finally:
        sys.setswitchinterval(old)
    return True


DV = "Dict[str, int]"
DPRE = ["len(v) <= 2", "all(k in ('a', 'b', 'a b', 'c') for k in v)"]

TEMPLATES = {
    "class_required": ("m: int", 'Object.inline("M", properties={"a": Property(Integer(minimum=m), required=True), "b_": Property(Integer(), source="b")}, required=["c"])', DV, DPRE),
    "element_required": ("m: int", 'Element(properties={"a": Property(Integer(minimum=m), required=True)}, required=["b"], patternProperties={"^c": Integer()}, additionalProperties=Integer(maximum=m))', DV, DPRE),
    "parsed_typed": ("m: int", 'parse_s({"type": "object", "title": "T", "properties": {"a": {"minimum": m, "default": 1}, "a b": {"type": "integer"}}, "required": ["a", "a b"], "dependencies": {"a": ["b"]}})', DV, DPRE),
    "nested_classes": ("m: int", 'Object.inline("Outer", properties={"a": Property(Object.inline("Inner", properties={"x": Property(Integer(minimum=m), required=True)})), "b": Property(Array(Integer()))})',
                       "Dict[str, Dict[str, int]]", ["len(v) <= 1", "all(k in ('a', 'c') for k in v)", "all(len(d) <= 1 and all(k in ('x', 'y') for k in d) for d in v.values())"]),
    "tuple_items": ("m: int", 'parse_s({"type": "array", "items": [{"type": "integer"}, {"minimum": m}], "additionalItems": {"type": "boolean"}, "uniqueItems": True})', "List[Union[int, bool]]", ["len(v) <= 3"]),
    "array_of_objects": ("m: int", 'Array(Object.inline("It", properties={"a": Property(Integer(maximum=m), required=True)}), minItems=1)', "List[Dict[str, int]]", ["len(v) <= 2", "all(len(d) <= 1 and all(k in ('a', 'b') for k in d) for d in v)"]),
    "composition": ("m: int", 'parse_s({"anyOf": [{"type": "object", "title": "A", "required": ["a"], "properties": {"a": {"minimum": m}}}, {"type": "integer"}], "not": {"const": 3}, "oneOf": [{"type": "object", "title": "B"}, {"type": "integer", "maximum": m}]})', "Union[int, Dict[str, int]]", ["(not isinstance(v, dict)) or (len(v) <= 1 and all(k in ('a', 'b') for k in v))"]),
    "inherited": ("m: int", '_child(m)', DV, DPRE),
    "format_enum": ("m: int", 'Element(format="uuid", enum=["x", m, [m]], const=m, properties={"a": Property(String(format="nope"))})', "Union[int, str, Dict[str, int]]", ["not isinstance(v, str) or len(v) <= 2", "(not isinstance(v, dict)) or (len(v) <= 1 and all(k in ('a', 'b') for k in v))"]),
}


def _child(m):
    from vf.common import Object, Property, Integer

    P = Object.inline("P", properties={"a": Property(Integer(minimum=m), required=True)}, required=["b"])

    class C(P):  # type: ignore
        c = Property(Integer())

    return C


def harnesses(ctx) -> List[H]:
    hs: List[H] = []
    for name, (hargs, make, vt, pre) in TEMPLATES.items():
        body = f"""
def make():
    return {make}
return no_interference(make, v)
"""
        hs.append(mk(f"c14_noninterference_{name}", f"{hargs}, v: {vt}", pre, body, timeout=200, group="step1",
                     tier="quick" if name in ("class_required", "element_required", "parsed_typed", "tuple_items", "composition", "inherited") else "thorough",
                     covers=f"{make}: no effective write to a pre-existing object during el(v)"))
    hs.append(mk("c14__monitor_sees", "m: int", [], 'return not monitor_sees(lambda: Object.inline("M", properties={"a": Property(Integer(minimum=m))}))', kind="witness", timeout=30))
    return hs


def extra_checks(ctx):
    """concrete thread runs on fixed inputs: a sanity layer for the replay side (not the deciding step)"""
    from vf.common import Object, Property, Integer, Element

    out = {"obligations": 0, "discharged": 0, "evaluations": 0, "solver_s": 0.0, "violations": [], "harness_errors": [], "lines": [], "report": {}}

    def make():
        return Object.inline("M", properties={"a": Property(Integer(minimum=0), required=True), "b_": Property(Integer(), source="b")}, required=["c"])

    rounds = 50 if ctx.tier == "quick" else 400
    ok = threads_equal_sequential(make, {"a": 1, "c": 2}, {"a": -1, "b": 3}, rounds)
    out["report"]["thread_rounds"] = {"rounds": rounds, "equal_to_sequential": ok}
    out["evaluations"] = rounds
    if not ok:
        d = "/verif/replays/C14"
        os.makedirs(d, exist_ok=True)
        path = os.path.join(d, "threads-class_required.json")
        with open(path, "w") as fh:
            json.dump({"property": "C14", "harness": "threads", "call": "thread_demo()", "detail": "two threads on a shared class differ from sequential runs"}, fh, indent=1)
        out["violations"].append(("threads:class_required", path, "concurrent calls differ from sequential calls / tree changed"))
    return out


def thread_demo():
    from vf.common import Object, Property, Integer

    def make():
        return Object.inline("M", properties={"a": Property(Integer(minimum=0), required=True), "b_": Property(Integer(), source="b")}, required=["c"])

    return threads_equal_sequential(make, {"a": 1, "c": 2}, {"a": -1, "b": 3}, 300)


def _demo_required_shared_write():
    from vf.common import Element, Property, Integer

    def make():
        return Element(properties={"a": Property(Integer(), required=True)}, required=["b"])

    return not no_interference(make, {"a": 1, "b": 2})


DEMOS = {"C14-required-shared-write": _demo_required_shared_write}
