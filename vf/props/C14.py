"""C14 - concurrent validation against shared models equals sequential validation (E1 write monitor + E3 schedule query)."""
import json
import os
import threading
from typing import List

from vf.harness import H, mk

EXPLANATION = (
    "CrossHair cannot execute threads symbolically; the property is decided in reduced form. Step 1 (E1, all inputs in the shape): "
    "while el(v) runs, every store to an object that existed before the call - attribute stores on Element / _Property / model "
    "classes (monitored __setattr__), mutations of the tree's lists and dicts (traced container subclasses substituted for them), "
    "the format registry - must write the value already present. If z3 confirms this for all inputs, concurrent calls cannot observe "
    "each other: every shared read returns the initial value under ANY schedule, so each thread behaves as in its solo run and the "
    "tree is unchanged (the schedule quantifier is discharged by this non-interference argument). Step 2 (E3, only when step 1 finds "
    "an effective shared write): the shared-location read/write events of two calls recorded from the real code on the "
    "counterexample inputs become a z3 problem over event timestamps (program order, read-sees-latest-write); a schedule in which a "
    "read observes a foreign value is replayed on real threads with the monitor blocking each event until its turn; only a replay "
    "whose verdict/result/tree differs from the sequential run is a VIOLATION."
)
ASSUMPTIONS = [
    "2 threads, 1 call each, atomicity at attribute-access granularity (GIL)",
    "completeness of the monitor: C-level mutation of a shared builtin container that was not substituted would be missed; the substitution walk is the C08 snapshot walk",
    "the reduction from 'all schedules' to 'no effective shared write' is an argument, not a mechanised proof",
]
FUNCTIONS = ["statham.schema.elements.base:Element.__call__", "statham.schema.elements.properties:Properties.__init__", "statham.schema.elements.properties:Properties.property",
             "statham.schema.elements.items:Items.property", "statham.schema.property:_Property.bind", "statham.schema.property:_Property.evolve",
             "statham.schema.validation.object:Required.from_element"]

_MUTATORS_LIST = ("append", "extend", "insert", "pop", "remove", "clear", "sort", "reverse", "__setitem__", "__delitem__", "__iadd__", "__imul__")
_MUTATORS_DICT = ("__setitem__", "__delitem__", "pop", "popitem", "clear", "update", "setdefault")


class Monitor:
    """records effective writes to pre-existing shared objects; in replay mode also logs the
    shared-location events of each thread and enforces a schedule"""

    def __init__(self):
        self.shared = set()
        self.keep = []
        self.effective = []
        self.active = False
        self.label = {}
        self.events = None  # per-thread event logs when recording: {thread_name: [(kind, loc)]}
        self.gate = None  # callable(thread_name, event_index) used to force a schedule
        self.sampler = None  # callable() invoked at the first few store events of a call (transient global state)
        self.samples_left = 0

    def add(self, obj):
        self.shared.add(id(obj))
        self.label[id(obj)] = len(self.keep)
        self.keep.append(obj)

    def log(self, kind, obj, name):
        if self.events is None or not self.active or id(obj) not in self.shared:
            return
        t = threading.current_thread().name
        ev = self.events.setdefault(t, [])
        ev.append((kind, (self.label[id(obj)], name)))
        if self.gate is not None:
            self.gate(t, len(ev) - 1)

    def on_setattr(self, obj, name, value):
        if self.active and self.sampler is not None and self.samples_left > 0:
            self.samples_left -= 1
            self.sampler()
        if not self.active or id(obj) not in self.shared:
            return
        try:
            old = object.__getattribute__(obj, name) if not isinstance(obj, type) else type.__getattribute__(obj, name)
            missing = False
        except AttributeError:
            old, missing = None, True
        if missing or not (old is value or _same(old, value)):
            self.effective.append(("setattr", type(obj).__name__, name, self.label.get(id(obj))))

    def on_mutation(self, obj, method):
        if self.active and id(obj) in self.shared:
            self.effective.append(("mutate", type(obj).__name__, method, self.label.get(id(obj))))
            self.log("W", obj, "<contents>")


def _same(a, b):
    from vf.common import NotPassed

    if isinstance(a, NotPassed) or isinstance(b, NotPassed):
        return isinstance(a, NotPassed) and isinstance(b, NotPassed)
    if type(a) is not type(b):
        return False
    if isinstance(a, (str, int, float, bool, type(None))):
        return a == b
    return a is b


MON = Monitor()


class TList(list):
    pass


class TDict(dict):
    pass


def _wrap_mutators(cls, base, names):
    for n in names:
        if not hasattr(base, n):
            continue
        orig = getattr(base, n)

        def make(orig, n):
            def m(self, *a, **kw):
                MON.on_mutation(self, n)
                return orig(self, *a, **kw)

            return m

        setattr(cls, n, make(orig, n))


_wrap_mutators(TList, list, _MUTATORS_LIST)
_wrap_mutators(TDict, dict, _MUTATORS_DICT)
_installed = [False]


def install_monitor():
    if _installed[0]:
        return
    _installed[0] = True
    from vf.common import Element, _Property, ObjectMeta, _PropertyDict

    def elem_setattr(self, name, value):
        MON.on_setattr(self, name, value)
        object.__setattr__(self, name, value)
        MON.log("W", self, name)  # after the store: a thread parked here has published the value

    def meta_setattr(cls, name, value):
        MON.on_setattr(cls, name, value)
        type.__setattr__(cls, name, value)
        MON.log("W", cls, name)

    Element.__setattr__ = elem_setattr
    _Property.__setattr__ = elem_setattr
    ObjectMeta.__setattr__ = meta_setattr
    # the process-wide format checker is shared by every element tree
    from statham.schema.validation.format import _FormatString

    _FormatString.__setattr__ = elem_setattr
    for n in _MUTATORS_DICT:
        if n == "__setitem__":
            orig = _PropertyDict.__setitem__
        else:
            orig = getattr(dict, n)

        def make(orig, n):
            def m(self, *a, **kw):
                MON.on_mutation(self, n)
                return orig(self, *a, **kw)

            return m

        setattr(_PropertyDict, n, make(orig, n))


def share_tree(el, _seen=None):
    """register every object of the element tree as shared; substitute traced containers for plain lists/dicts"""
    from vf.common import Element, _Property, ObjectMeta, _PropertyDict, NotPassed

    if _seen is None:
        _seen = set()
        from statham.schema.validation.format import format_checker

        MON.add(format_checker)
    if id(el) in _seen:
        return el
    _seen.add(id(el))
    if isinstance(el, (Element, _Property)):
        MON.add(el)
        if isinstance(el, ObjectMeta):
            names = ["default", "const", "enum", "required", "properties", "patternProperties", "additionalProperties", "propertyNames", "dependencies"]
            get = lambda n: type.__getattribute__(el, n) if n != "properties" else el.properties
            put = lambda n, val: type.__setattr__(el, n, val)
        elif isinstance(el, _Property):
            names = ["element", "parent"]
            get = lambda n: getattr(el, n)
            put = lambda n, val: object.__setattr__(el, n, val)
        else:
            names = list(vars(el))
            get = lambda n: vars(el)[n]
            put = lambda n, val: object.__setattr__(el, n, val)
        for n in names:
            try:
                val = get(n)
            except AttributeError:
                continue
            if n == "parent":
                continue
            new = share_tree(val, _seen)
            if new is not val and n not in ("properties",):
                put(n, new)
        return el
    if isinstance(el, _PropertyDict):
        MON.add(el)
        for p in el.values():
            share_tree(p, _seen)
        return el
    if type(el) is list:
        t = TList(share_tree(x, _seen) for x in el)
        MON.add(t)
        return t
    if type(el) is dict:
        t = TDict((k, share_tree(x, _seen)) for k, x in el.items())
        MON.add(t)
        return t
    return el


def global_state():
    """shallow images of every mutable container reachable as a module global or class attribute of a statham
    module: process-wide state that all threads share (e.g. a class-level dict written through an instance)"""
    import sys

    out = {}
    for mname, mod in list(sys.modules.items()):
        if mod is None or not (mname == "statham" or mname.startswith("statham.")):
            continue
        for gname, g in list(vars(mod).items()):
            if isinstance(g, (dict, list, set)) and not gname.startswith("__"):
                out[(mname, gname)] = repr(sorted(map(repr, g.items())) if isinstance(g, dict) else sorted(map(repr, g)))
            if isinstance(g, type) and getattr(g, "__module__", None) == mname:
                for aname, a in list(vars(g).items()):
                    if isinstance(a, (dict, list, set)) and not aname.startswith("__"):
                        try:
                            out[(mname, gname, aname)] = repr(sorted(map(repr, a.items())) if isinstance(a, dict) else sorted(map(repr, a)))
                        except Exception:  # noqa
                            out[(mname, gname, aname)] = "<unprintable %d>" % len(a)
    return out


def no_interference(make, v, probes=()):
    """step 1: no effective write to a pre-existing object during el(v).
    In replay (plain interpreter) an effective shared write is followed by step 2: only a schedule that
    makes a thread's outcome differ from its solo run (or changes the tree) is a violation; otherwise
    the write is reported as benign-within-bounds (Inconclusive)."""
    from vf.common import verdict, jcopy, _tracing, Inconclusive
    from statham.schema.validation.format import format_checker

    install_monitor()
    global MON
    MON.shared.clear()
    MON.keep.clear()
    MON.effective.clear()
    el = make()
    el = share_tree(el)
    reg_before = dict(format_checker._callable_register)
    g_before = global_state()
    transient = []

    def sample():
        g_now = global_state()
        for key in g_now:
            if g_before.get(key) != g_now[key] and key not in transient:
                transient.append(key)

    MON.sampler, MON.samples_left = sample, 4
    MON.active = True
    try:
        verdict(el, jcopy(v))
    finally:
        MON.active = False
        MON.sampler = None
    for key in transient:
        MON.effective.append(("global", ".".join(key[:-1]), key[-1] + " (transient)", None))
    if dict(format_checker._callable_register) != reg_before:
        return False
    g_after = global_state()
    for key in g_after:
        if g_before.get(key) != g_after[key]:
            MON.effective.append(("global", ".".join(key[:-1]), key[-1], None))
    if len(MON.effective) == 0:
        return True
    if _tracing():
        return False
    writes = sorted(set((e[1], e[2]) for e in MON.effective))
    only_global = all(e[0] == "global" for e in MON.effective)
    why = harmful_schedule(make, [v] + list(probes))
    if why is None and only_global:
        # a builtin container at class / module level cannot be hooked for a forced schedule:
        # free-running threads with a tiny switch interval (probabilistic, stated in the evidence)
        vals = [v] + list(probes)
        for a in vals:
            for b in vals:
                if not threads_equal_sequential(make, a, b, 60):
                    why = "free-running threads on values %r / %r differ from their solo runs (process-global container %s written during validation)" % (a, b, writes)
                    break
            if why:
                break
        for a in ([] if why else vals):
            if isinstance(a, (list, dict)) and len(a) > 0:
                big = {"k": [a, a, a]} if False else a
                if not threads_equal_sequential(make, big, big, 150, share=True):
                    why = "free-running threads validating documents that share the container object %r by identity differ from their solo runs (process-global container %s written during validation)" % (a, writes)
                    break
            if why:
                break
    if why is not None:
        print("C14 step 2:", why)
        return False
    raise Inconclusive("effective shared write(s) %s during el(v), but no schedule among %d solver-chosen one-preemption schedules over %d values changed any thread's outcome or the tree" % (
        writes, getattr(harmful_schedule, "tried", 0), 1 + len(probes)))


def monitor_sees(make):
    """witness: the monitor does see idempotent traffic on shared objects (it is wired in)"""
    from vf.common import verdict

    install_monitor()
    MON.shared.clear()
    MON.keep.clear()
    MON.effective.clear()
    el = share_tree(make())
    seen = [0]
    orig = MON.on_setattr

    def counting(obj, name, value):
        if id(obj) in MON.shared:
            seen[0] += 1
        return orig(obj, name, value)

    MON.on_setattr = counting
    MON.active = True
    try:
        verdict(el, {"a": 1})
    finally:
        MON.active = False
        MON.on_setattr = orig
    return seen[0] > 0


# ------------------------------------------------------------------ step 2: schedule query + forced replay
def install_read_hooks(names):
    """log reads of the given attribute names on shared objects (replay mode only)"""
    from vf.common import Element, _Property, ObjectMeta

    if getattr(install_read_hooks, "done", None) == tuple(sorted(names)):
        return
    install_read_hooks.done = tuple(sorted(names))
    wanted = set(names)

    def inst_get(self, name):
        val = object.__getattribute__(self, name)
        if name in wanted:
            MON.log("R", self, name)
        return val

    def meta_get(cls, name):
        val = type.__getattribute__(cls, name)
        if name in wanted:
            MON.log("R", cls, name)
        return val

    Element.__getattribute__ = inst_get
    _Property.__getattribute__ = inst_get
    ObjectMeta.__getattribute__ = meta_get
    from statham.schema.validation.format import _FormatString

    _FormatString.__getattribute__ = inst_get


def record(make, v, thread_name):
    """solo run of el(v) on a fresh shared tree: (verdict, event list, effective writes)"""
    from vf.common import verdict, jcopy

    MON.shared.clear()
    MON.keep.clear()
    MON.label.clear()
    MON.effective.clear()
    el = share_tree(make())
    MON.events = {}
    MON.gate = None
    MON.active = True
    old = threading.current_thread().name
    threading.current_thread().name = thread_name
    try:
        out = verdict(el, jcopy(v))
    finally:
        threading.current_thread().name = old
        MON.active = False
    ev = MON.events.get(thread_name, [])
    MON.events = None
    return out, ev, list(MON.effective)


def preemption_points(ev_a, ev_b, limit=40):
    """E3 query: timestamps for the events of A and B (program order, B contiguous = one preemption of A);
    find every index p of A such that B, run right after A's p-th event, READS a location that A has
    WRITTEN at or before p while A still has work to do.  z3 enumerates the feasible p."""
    import z3

    na, nb = len(ev_a), len(ev_b)
    if na == 0:
        return []
    pa = [z3.Int("a%d" % i) for i in range(na)]
    pb = [z3.Int("b%d" % j) for j in range(nb)]
    p = z3.Int("p")
    s = z3.Solver()
    s.set("timeout", 20000)
    for i in range(na):
        s.add(pa[i] >= 0, pa[i] < na + nb)
        if i:
            s.add(pa[i] > pa[i - 1])
    for j in range(nb):
        s.add(pb[j] >= 0, pb[j] < na + nb)
        if j:
            s.add(pb[j] == pb[j - 1] + 1)
    s.add(z3.Distinct(*(pa + pb)) if na + nb > 1 else z3.BoolVal(True))
    s.add(p >= 0, p < na)
    # B's block sits right after A's p-th event
    for i in range(na):
        if nb:
            s.add(z3.Implies(p == i, z3.And(pa[i] < pb[0], *( [pb[-1] < pa[i + 1]] if i + 1 < na else []))))
    harm = []
    for i, (ka, la) in enumerate(ev_a):
        if ka != "W":
            continue
        for j, (kb, lb) in enumerate(ev_b):
            if lb == la:  # B touches what A wrote
                harm.append(z3.And(pa[i] < pb[j], p >= i))
        if not nb:
            harm.append(p == i)
    if not harm:
        return []
    s.add(z3.Or(*harm))
    out = []
    while len(out) < limit and str(s.check()) == "sat":
        val = s.model().eval(p, model_completion=True).as_long()
        out.append(val)
        s.add(p != val)
    return sorted(out)


def forced_run(make, va, vb, p):
    """thread A validates va and is parked right after its p-th shared event; thread B then validates vb to
    completion; A resumes.  Returns (outcome_a, outcome_b, tree public snapshot changed?)"""
    from vf.common import verdict, jcopy, snapshot

    MON.shared.clear()
    MON.keep.clear()
    MON.label.clear()
    MON.effective.clear()
    import copy
    from statham.schema.validation.format import format_checker

    fc_saved = {k: copy.copy(val) for k, val in object.__getattribute__(format_checker, "__dict__").items()}
    el = share_tree(make())
    s0 = snapshot(el)
    parked = threading.Event()
    resume = threading.Event()
    out = {}

    def gate(tname, idx):
        if tname == "A" and idx == p and not parked.is_set():
            parked.set()
            resume.wait(20)

    MON.events = {}
    MON.gate = gate
    MON.active = True

    def run_a():
        out["A"] = verdict(el, jcopy(va))
        parked.set()

    def run_b():
        parked.wait(20)
        out["B"] = verdict(el, jcopy(vb))
        resume.set()

    ta = threading.Thread(target=run_a, name="A")
    tb = threading.Thread(target=run_b, name="B")
    try:
        ta.start()
        tb.start()
        ta.join(60)
        tb.join(60)
    finally:
        resume.set()
        MON.active = False
        MON.gate = None
        MON.events = None
    # "no state from an earlier call influences a later verdict": the same calls again, sequentially
    again = (verdict(el, jcopy(va)), verdict(el, jcopy(vb)))
    d = object.__getattribute__(format_checker, "__dict__")
    for k in list(d):
        if k not in fc_saved:
            del d[k]
    d.update(fc_saved)
    return out.get("A"), out.get("B"), snapshot(el) != s0, again


def harmful_schedule(make, values):
    """search (solver-chosen preemption points x ordered pairs of values) for a schedule whose outcome
    differs from the solo runs; returns a description or None"""
    from vf.common import verdict, jcopy, result_eq

    install_monitor()
    # which attribute names are written effectively at all?
    written = set()
    solo = []
    for v in values:
        o, ev, eff = record(make, v, "S")
        solo.append(o)
        for e in eff:
            written.add(e[2] if e[0] == "setattr" else "<contents>")
    if not written:
        return None
    install_read_hooks(written)
    logs = []
    for v in values:
        o, ev, eff = record(make, v, "S")
        logs.append(ev)
    tried = 0
    for ia, va in enumerate(values):
        for ib, vb in enumerate(values):
            for p in preemption_points(logs[ia], logs[ib]):
                tried += 1
                oa, ob, changed, again = forced_run(make, va, vb, p)
                for name, got, want in (("A", oa, solo[ia]), ("B", ob, solo[ib]), ("A again, sequentially afterwards", again[0], solo[ia]), ("B again, sequentially afterwards", again[1], solo[ib])):
                    if got is None or got[0] != want[0] or (want[0] and not result_eq(got[1], want[1])):
                        return "call %s (value %r) under schedule [A(%r) parked after its shared event #%d, B(%r) runs to completion, A resumes]: verdict/result %r differs from its solo run %r" % (
                            name, va if name.startswith("A") else vb, va, p, vb, got and got[0], want[0])
                if changed:
                    return "element tree (public state) changed under schedule [A(%r) parked after event #%d, B(%r)]" % (va, p, vb)
    harmful_schedule.tried = tried
    return None


# ------------------------------------------------------------------ threads, free running (sanity layer)
def threads_equal_sequential(make, v1, v2, rounds=200, share=False):
    """run the two calls on real threads (barrier start, many rounds) and compare with the solo runs + tree snapshot.
    share=True: the threads are handed the value OBJECTS themselves (documents sharing containers by identity)"""
    from vf.common import verdict, result_eq, snapshot, jcopy

    if share:
        keep = jcopy
        jcopy = lambda x: x

    el = make()
    s0 = snapshot(el)
    solo = [verdict(make(), jcopy(v1)), verdict(make(), jcopy(v2))]
    import sys

    old = sys.getswitchinterval()
    sys.setswitchinterval(1e-6)
    try:
        for _ in range(rounds):
            el = make()
            out = [None, None]
            bar = threading.Barrier(2)

            def run(i, v):
                bar.wait()
                out[i] = verdict(el, jcopy(v))

            ts = [threading.Thread(target=run, args=(0, v1)), threading.Thread(target=run, args=(1, v2))]
            for t in ts:
                t.start()
            for t in ts:
                t.join()
            for i in (0, 1):
                if out[i] is None or out[i][0] != solo[i][0] or (solo[i][0] and not result_eq(out[i][1], solo[i][1])):
                    return False
            if snapshot(el) != s0:
                return False
    finally:
        sys.setswitchinterval(old)
    return True


DV = "Dict[str, int]"
DPRE = ["len(v) <= 2", "all(k in ('a', 'b', 'a b', 'c') for k in v)"]

TEMPLATES = {
    "class_required": ("m: int", 'Object.inline("M", properties={"a": Property(Integer(minimum=m), required=True), "b_": Property(Integer(), source="b")}, required=["c"])', DV, DPRE),
    "element_required": ("m: int", 'Element(properties={"a": Property(Integer(minimum=m), required=True)}, required=["b"], patternProperties={"^c": Integer()}, additionalProperties=Integer(maximum=m))', DV, DPRE),
    "parsed_typed": ("m: int", 'parse_s({"type": "object", "title": "T", "properties": {"a": {"minimum": m, "default": 1}, "a b": {"type": "integer"}}, "required": ["a", "a b"], "dependencies": {"a": ["b"]}})', DV, DPRE),
    "nested_classes": ("m: int", 'Object.inline("Outer", properties={"a": Property(Object.inline("Inner", properties={"x": Property(Integer(minimum=m), required=True)})), "b": Property(Array(Integer()))})',
                       "Dict[str, Dict[str, int]]", ["len(v) <= 1", "all(k in ('a', 'c') for k in v)", "all(len(d) <= 1 and all(k in ('x', 'y') for k in d) for d in v.values())"]),
    "tuple_items": ("m: int", 'parse_s({"type": "array", "items": [{"type": "integer"}, {"minimum": m}], "additionalItems": {"type": "boolean"}, "uniqueItems": True})', "List[Union[int, bool]]", ["len(v) <= 3"]),
    "array_of_objects": ("m: int", 'Array(Object.inline("It", properties={"a": Property(Integer(maximum=m), required=True)}), minItems=1)', "List[Dict[str, int]]", ["len(v) <= 2", "all(len(d) <= 1 and all(k in ('a', 'b') for k in d) for d in v)"]),
    "composition": ("m: int", 'parse_s({"anyOf": [{"type": "object", "title": "A", "required": ["a"], "properties": {"a": {"minimum": m}}}, {"type": "integer"}], "not": {"const": 3}, "oneOf": [{"type": "object", "title": "B"}, {"type": "integer", "maximum": m}]})', "Union[int, Dict[str, int]]", ["(not isinstance(v, dict)) or (len(v) <= 1 and all(k in ('a', 'b') for k in v))"]),
    "inherited": ("m: int", '_child(m)', DV, DPRE),
    "mixed_types": ("m: int", 'Object.inline("Mx", properties={"s": Property(String(maxLength=2)), "i": Property(Integer(minimum=m)), "l": Property(Array(Boolean())), "u": Property(Element()), "n": Property(Null())})', "Dict[str, Union[int, str, None]]", ["len(v) <= 2", "all(k in ('s', 'i', 'u', 'n') for k in v)", "all((not isinstance(x, str)) or len(x) <= 1 for x in v.values())"]),
    "nested_plain_containers": ("m: int", 'Element(properties={"tags": Property(Array(String(maxLength=3), uniqueItems=True)), "meta": Property(Element(additionalProperties=Array(Integer(minimum=m))))}, items=Array(Integer()))', "Dict[str, List[int]]", ["len(v) <= 1", "all(k in ('tags', 'x') for k in v)", "all(len(x) <= 2 for x in v.values())"]),
    "format_uuid": ("m: int", 'AnyOf(String(format="uuid", minLength=m), Element(properties={"a": Property(String(format="uuid"), required=True)}, maxProperties=1))', "Union[int, str, Dict[str, str]]", ["not isinstance(v, str) or len(v) <= 2", "(not isinstance(v, dict)) or (len(v) <= 1 and all(k in ('a', 'b') for k in v) and all(len(x) <= 1 for x in v.values()))"]),
    "format_enum": ("m: int", 'Element(format="uuid", enum=["x", m, [m]], const=m, properties={"a": Property(String(format="nope"))})', "Union[int, str, Dict[str, int]]", ["not isinstance(v, str) or len(v) <= 2", "(not isinstance(v, dict)) or (len(v) <= 1 and all(k in ('a', 'b') for k in v))"]),
}


def _child(m):
    from vf.common import Object, Property, Integer

    P = Object.inline("P", properties={"a": Property(Integer(minimum=m), required=True)}, required=["b"])

    class C(P):  # type: ignore
        c = Property(Integer())

    return C


PROBES = {
    "class_required": '[{"a": m, "c": 1}, {"a": m - 1, "c": 1}, {"a": m}, {"a": m, "c": 1, "b": "x"}, {}]',
    "element_required": '[{"a": m, "b": 1}, {"a": m - 1, "b": 1}, {"b": 1}, {"a": m, "b": 1, "c9": "x"}, {"a": m, "b": 1, "z": m + 1}]',
    "parsed_typed": '[{"a": m, "a b": 1, "b": 0}, {"a": m - 1, "a b": 1}, {"a b": "x"}, {"a": m, "a b": 1}]',
    "nested_classes": '[{"a": {"x": m}}, {"a": {"x": m - 1}}, {"a": {}}, {"b": [1, "x"]}]',
    "tuple_items": '[[1, m, True], [1, m - 1], [1, m, True, True], ["x"], [1, m, 5]]',
    "array_of_objects": '[[{"a": m}], [{"a": m + 1}], [], [{}]]',
    "composition": '[{"a": m}, {"a": m - 1}, 3, m, m + 1, "s"]',
    "inherited": '[{"a": m, "b": 1}, {"a": m - 1, "b": 1}, {"a": m}, {"a": m, "b": 1, "c": "x"}]',
    "mixed_types": '[{"s": "ab", "i": m}, {"s": 1}, {"i": "x"}, {"l": [True], "u": 1}, {"l": [1]}, {"n": None, "s": "a"}, {"n": 0}]',
    "nested_plain_containers": '[{"tags": ["a", "b", "c", "d", "e", "f", "g", "h"] * 4, "meta": {"p": list(range(m, m + 40)), "q": list(range(m, m + 40))}}, [[m] * 50, [m + 1] * 50, [m] * 50], {"tags": ["a", "a"]}]',
    "format_uuid": '["123e4567-e89b-12d3-a456-426614174000", "not-a-uuid", {"a": "123e4567-e89b-12d3-a456-426614174000"}, {"a": "zz"}, 5]',
    "format_enum": '["x", m, [m], "y", {"a": "s"}, {"a": 1}]',
}


def harnesses(ctx) -> List[H]:
    hs: List[H] = []
    for name, (hargs, make, vt, pre) in TEMPLATES.items():
        body = f"""
def make():
    return {make}
return no_interference(make, v, {PROBES[name]})
"""
        hs.append(mk(f"c14_noninterference_{name}", f"{hargs}, v: {vt}", pre, body, timeout=200, group="step1",
                     tier="quick" if name in ("class_required", "element_required", "parsed_typed", "tuple_items", "composition", "inherited", "format_uuid", "mixed_types", "nested_plain_containers") else "thorough",
                     covers=f"{make}: no effective write to a pre-existing object during el(v)"))
    hs.append(mk("c14__monitor_sees", "m: int", [], 'return not monitor_sees(lambda: Object.inline("M", properties={"a": Property(Integer(minimum=m))}))', kind="witness", timeout=30))
    return hs


def extra_checks(ctx):
    """concrete thread runs on fixed inputs: a sanity layer for the replay side (not the deciding step)"""
    from vf.common import Object, Property, Integer, Element

    out = {"obligations": 0, "discharged": 0, "evaluations": 0, "solver_s": 0.0, "violations": [], "harness_errors": [], "lines": [], "report": {}}

    def make():
        return Object.inline("M", properties={"a": Property(Integer(minimum=0), required=True), "b_": Property(Integer(), source="b")}, required=["c"])

    rounds = 50 if ctx.tier == "quick" else 400
    ok = threads_equal_sequential(make, {"a": 1, "c": 2}, {"a": -1, "b": 3}, rounds)
    out["report"]["thread_rounds"] = {"rounds": rounds, "equal_to_sequential": ok}
    out["evaluations"] = rounds
    if not ok:
        d = "/verif/replays/C14"
        os.makedirs(d, exist_ok=True)
        path = os.path.join(d, "threads-class_required.json")
        with open(path, "w") as fh:
            json.dump({"property": "C14", "harness": "threads", "call": "thread_demo()", "detail": "two threads on a shared class differ from sequential runs"}, fh, indent=1)
        out["violations"].append(("threads:class_required", path, "concurrent calls differ from sequential calls / tree changed"))
    return out


def thread_demo():
    from vf.common import Object, Property, Integer

    def make():
        return Object.inline("M", properties={"a": Property(Integer(minimum=0), required=True), "b_": Property(Integer(), source="b")}, required=["c"])

    return threads_equal_sequential(make, {"a": 1, "c": 2}, {"a": -1, "b": 3}, 300)


def _demo_required_shared_write():
    """the repaired defect: the call appended to the list object shared by all threads (and by subclasses)"""
    from vf.common import Element, Property, Integer, accepts

    el = Element(properties={"a": Property(Integer(), required=True)}, required=["b"])
    shared = el.required
    before = list(shared)
    accepts(el, {"a": 1, "b": 2})
    return list(shared) != before


DEMOS = {"C14-required-shared-write": _demo_required_shared_write}
