"""C20 - unsupported schema features are refused, never silently mis-modelled (E1)."""
import os
import tempfile
from typing import List

from vf.harness import H, mk

EXPLANATION = (
    "Keywords: a base document containing every schema position statham interprets; the (position, keyword) pair is a pair of symbolic "
    "indices: injecting the unsupported keyword (with a metaschema-valid value) at the position must make parse()/parse_element() raise "
    "FeatureNotImplementedError, while the document without the injection parses and the same keyword at LITERAL positions (inside "
    "default/const/enum, as a property / pattern / dependency / definition name, in a required list) does not raise. Cycles: reference "
    "graphs over root + 2 (quick) / 3 (thorough) definitions with symbolic adjacency, the reference placed at a symbolic position; the "
    "document goes through a file and the real statham.__main__.main(): cyclic -> FeatureNotImplementedError, acyclic -> module text "
    "that executes. The graph/index dimensions are solver-forked enumeration of finite spaces."
)
ASSUMPTIONS = ["json_ref_dict and file I/O run concretely (realised documents)", "a document is 'recursive' iff its $ref graph (root + definitions) has a cycle"]
FUNCTIONS = ["statham.schema.parser:parse_element", "statham.schema.parser:parse", "statham.schema.helpers:reraise", "statham.__main__:main",
             "statham.serializers.orderer:orderer"]

UNSUPPORTED = ["$defs", "if", "then", "else", "unevaluatedItems", "unevaluatedProperties"]
KW_VALUE = {"$defs": {"x": {}}, "if": {"type": "integer"}, "then": {"minimum": 1}, "else": False, "unevaluatedItems": False, "unevaluatedProperties": {"type": "integer"}}

SCHEMA_POSITIONS = [
    [],
    ["properties", "p"],
    ["patternProperties", "^x"],
    ["additionalProperties"],
    ["propertyNames"],
    ["dependencies", "d"],
    ["properties", "q", "items"],
    ["properties", "r", "items", 1],
    ["properties", "r", "additionalItems"],
    ["properties", "q", "contains"],
    ["anyOf", 0],
    ["oneOf", 1],
    ["allOf", 0],
    ["not"],
    ["definitions", "D"],
    ["properties", "o"],
    ["properties", "o", "properties", "deep", "items", "anyOf", 1],
    ["properties", "tl"],
    ["properties", "s", "additionalItems"],
    ["properties", "t", "additionalItems"],
    ["properties", "t", "contains"],
    ["properties", "u", "items", 0],
    ["properties", "o", "propertyNames"],
    ["properties", "o", "dependencies", "deep"],
    ["definitions", "E", "properties", "x", "additionalProperties"],
    ["allOf", 0, "not", "anyOf", 0],
    ["properties", "ts", "properties", "a"],
    ["properties", "ts", "items"],
    ["properties", "to", "items"],
    ["properties", "to", "contains"],
    ["properties", "tn", "properties", "a"],
    ["properties", "tn", "dependencies", "k"],
    ["properties", "ta", "patternProperties", "^x"],
    ["properties", "ta", "propertyNames"],
    # two JSON names that map to one Python attribute: the declaration that loses is still a schema position
    ["properties", "foo-bar"],
    ["properties", "foo-bar", "items"],
    ["properties", "foo_bar"],
    ["properties", "o", "properties", "a b", "anyOf", 0],
]


def base_doc():
    return {
        "title": "Root",
        "properties": {
            "p": {"type": "integer"},
            "foo-bar": {"type": "array", "items": {"type": "integer"}},
            "foo_bar": {"type": "string"},
            "q": {"type": "array", "items": {"type": "integer"}, "contains": {"minimum": 1}},
            "r": {"items": [{"type": "integer"}, {"type": "string"}], "additionalItems": {"type": "null"}},
            "o": {"type": "object", "title": "O", "properties": {"a b": {"anyOf": [{"type": "integer"}, {"type": "null"}]}, "a_b": {"type": "integer"}, "deep": {"type": "array", "items": {"anyOf": [{"type": "integer"}, {"type": "string"}]}}}, "propertyNames": {"maxLength": 9}, "dependencies": {"deep": {"minProperties": 1}}},
            "tl": {"type": ["integer", "string"], "minimum": 1},
            "s": {"items": {"type": "integer"}, "additionalItems": {"type": "null"}},
            "t": {"additionalItems": {"type": "null"}, "contains": {"type": "integer"}},
            "u": {"type": "array", "items": [{"type": "integer"}]},
            "ts": {"type": "string", "properties": {"a": {"type": "integer"}}, "items": {"type": "integer"}},
            "to": {"type": "object", "title": "TO", "items": {"type": "integer"}, "contains": {"type": "integer"}},
            "tn": {"type": ["string", "null"], "properties": {"a": {"type": "integer"}}, "dependencies": {"k": {"minProperties": 1}}},
            "ta": {"type": "array", "patternProperties": {"^x": {"type": "integer"}}, "propertyNames": {"maxLength": 3}},
        },
        "patternProperties": {"^x": {"type": "integer"}},
        "additionalProperties": {"type": "integer"},
        "propertyNames": {"maxLength": 5},
        "dependencies": {"d": {"minProperties": 2}, "e": ["p"]},
        "anyOf": [{"minProperties": 0}, {"type": "null"}],
        "oneOf": [{"type": "null"}, {"minProperties": 0}],
        "allOf": [{"maxProperties": 9, "not": {"anyOf": [{"type": "string"}, {"type": "null"}]}}],
        "not": {"type": "string"},
        "definitions": {"D": {"type": "integer"}, "E": {"type": "object", "title": "E", "properties": {"x": {"type": "object", "title": "EX", "additionalProperties": {"type": "integer"}}}}},
    }


def _at(doc, path):
    node = doc
    for k in path:
        node = node[k]
    return node


def outcome(fn, doc):
    from vf.common import FeatureNotImplementedError, SchemaParseError

    try:
        fn(doc)
        return "ok"
    except FeatureNotImplementedError:
        return "not-implemented"
    except SchemaParseError:
        return "parse-error"
    except Exception as exc:  # noqa
        return type(exc).__name__


def refused(pos, kw, entry):
    """inject UNSUPPORTED[kw] at SCHEMA_POSITIONS[pos]; expect refusal; control parses.
    (pos, kw) are the only symbolic inputs: concretised by equality forks, then the concrete documents
    are parsed untraced."""
    from vf.common import concretize_int, _tracing

    pos = concretize_int(pos, 0, len(SCHEMA_POSITIONS) - 1)
    kw = concretize_int(kw, 0, len(UNSUPPORTED) - 1)
    if _tracing():
        from crosshair.tracers import NoTracing

        from vf.prelude import real_hash

        with NoTracing(), real_hash():
            return _refused(pos, kw, entry)
    return _refused(pos, kw, entry)


def _refused(pos, kw, entry):
    from vf.common import parse, parse_element

    fn = parse if entry == 0 else parse_element
    if outcome(fn, base_doc()) != "ok":
        return False
    doc = base_doc()
    node = _at(doc, SCHEMA_POSITIONS[pos])
    name = UNSUPPORTED[kw]
    node[name] = KW_VALUE[name]
    if entry == 1 and SCHEMA_POSITIONS[pos][:1] == ["definitions"]:
        return True  # parse_element does not visit definitions (parse does)
    return outcome(fn, doc) == "not-implemented"


LITERAL_INJECTIONS = [
    lambda d, n, val: d["properties"]["p"].__setitem__("default", {n: val}),
    lambda d, n, val: d["properties"]["p"].__setitem__("const", {n: val}),
    lambda d, n, val: d["properties"]["p"].__setitem__("enum", [{n: val}, [n]]),
    lambda d, n, val: d["properties"].__setitem__(n, {"type": "integer"}),
    lambda d, n, val: d["patternProperties"].__setitem__(n.replace("$", "S"), {"type": "integer"}),
    lambda d, n, val: d["dependencies"].__setitem__(n, ["p"]),
    lambda d, n, val: d["definitions"].__setitem__(n, {"type": "integer"}),
    lambda d, n, val: d.__setitem__("required", [n]),
    lambda d, n, val: d.__setitem__("default", {"nested": [{n: val}]}),
    lambda d, n, val: d["properties"]["o"].__setitem__("default", {n: val}),
]


def literal_ok(lit, kw):
    from vf.common import parse

    doc = base_doc()
    name = UNSUPPORTED[kw]
    LITERAL_INJECTIONS[lit](doc, name, KW_VALUE[name])
    return outcome(parse, doc) == "ok"


def under_template(kw, tpl):
    """unsupported keyword inside composition / object templates as the surrounding schema"""
    from vf.common import parse_element

    name = UNSUPPORTED[kw]
    bad = {"type": "integer", name: KW_VALUE[name]}
    good = {"type": "integer"}
    templates = [
        lambda x: {"anyOf": [{"type": "string"}, x], "minimum": 1},
        lambda x: {"type": "object", "title": "T", "properties": {"a": {"oneOf": [x, {"type": "null"}]}}},
        lambda x: {"type": ["array", "null"], "items": [x]},
        lambda x: {"not": {"allOf": [{"not": x}]}},
        lambda x: {"type": "object", "title": "T", "additionalProperties": {"type": "array", "items": x}, "default": {}},
        lambda x: {"dependencies": {"a": {"properties": {"b": x}}}},
    ]
    if outcome(parse_element, templates[tpl](good)) != "ok":
        return False
    return outcome(parse_element, templates[tpl](bad)) == "not-implemented"


# ------------------------------------------------------------------ cycles
_CNT = [0]


def run_main(doc):
    """write doc to a unique file and run the real main(); concrete."""
    import json
    from vf.common import realize, _tracing

    doc = realize(doc)

    def go():
        from statham.__main__ import main
        from vf.common import FeatureNotImplementedError, SchemaParseError, exec_module

        import sys

        _CNT[0] += 1
        old_limit = sys.getrecursionlimit()
        sys.setrecursionlimit(1000)  # the default; cyclic documents are detected by exhausting it
        d = tempfile.mkdtemp(prefix="vf_c20_")
        path = os.path.join(d, "doc_%d_%d.json" % (os.getpid(), _CNT[0]))
        try:
            with open(path, "w") as fh:
                json.dump(doc, fh)
            try:
                text = main(path)
            except FeatureNotImplementedError:
                return "not-implemented"
            except SchemaParseError:
                return "parse-error"
            except BaseException as exc:  # noqa: RecursionError must be visible
                return type(exc).__name__
            try:
                exec_module(text)
            except Exception as exc:  # noqa
                return "generated module fails: " + type(exc).__name__
            return "ok"
        finally:
            sys.setrecursionlimit(old_limit)
            try:
                os.remove(path)
                os.rmdir(d)
            except OSError:
                pass

    if _tracing():
        from crosshair.tracers import NoTracing

        from vf.prelude import real_hash

        with NoTracing(), real_hash():
            return go()
    return go()


REF_POSITIONS = [
    lambda ref: {"properties": {"next": ref}},
    lambda ref: {"properties": {"list": {"type": "array", "items": ref}}},
    lambda ref: {"anyOf": [{"type": "null"}, ref]},
    lambda ref: {"additionalProperties": ref},
    lambda ref: {"not": ref},
    lambda ref: {"properties": {"t": {"items": [{"type": "integer"}, ref]}}},
]


def cycle_doc(names, edges, root_edges, pos, root_is_ref=False):
    """definitions `names`; edges[(i, j)] -> definition i references definition j at position pos"""
    defs = {}
    for i, n in enumerate(names):
        body = {"type": "object", "properties": {"id": {"type": "integer"}}}
        targets = [names[j] for j in range(len(names)) if edges.get((i, j))]
        for k, t in enumerate(targets):
            frag = REF_POSITIONS[(pos + k) % len(REF_POSITIONS)]({"$ref": "#/definitions/" + t})
            for key, val in frag.items():
                if key == "properties":
                    body["properties"].update(val)
                elif key == "anyOf" and "anyOf" in body:
                    body["allOf"] = body.get("allOf", []) + [{"anyOf": val}]
                elif key in body:
                    body["allOf"] = body.get("allOf", []) + [{key: val}]
                else:
                    body[key] = val
        defs[n] = body
    root = {"type": "object", "title": "Root", "properties": {}, "definitions": defs}
    for j, n in enumerate(names):
        if root_edges[j]:
            root["properties"]["r" + n] = {"$ref": "#/definitions/" + n}
    if root_is_ref:
        root = {"$ref": "#/definitions/" + names[0], "definitions": defs}
    return root


def has_cycle(n, edges):
    reach = [[bool(edges.get((i, j))) for j in range(n)] for i in range(n)]
    for k in range(n):
        for i in range(n):
            for j in range(n):
                if reach[i][k] and reach[k][j]:
                    reach[i][j] = True
    return any(reach[i][i] for i in range(n))


def cycles_ok(n, edges, root_edges, pos, root_is_ref=False):
    names = ["a", "b", "c"][:n]
    doc = cycle_doc(names, edges, root_edges, pos, root_is_ref)
    got = run_main(doc)
    if has_cycle(n, edges):
        return got == "not-implemented"
    if root_is_ref:
        # json_ref_dict cannot dereference a root that is itself a $ref with sibling definitions;
        # a refusal of the acyclic case is not a C20 matter (nothing is silently mis-modelled)
        return got in ("ok", "not-implemented")
    return got == "ok"


def materialized_cycle_ok(cyc):
    """a cyclic materialised dict given directly to parse_element"""
    from vf.common import parse_element

    a = {"type": "object", "title": "A", "properties": {}}
    b = {"type": "object", "title": "B", "properties": {"a": a if cyc else {"type": "integer"}}}
    a["properties"]["b"] = b
    got = outcome(parse_element, a)
    return got == ("not-implemented" if cyc else "ok")


def _edge_args(pairs):
    return ", ".join("e%d%d: bool" % p for p in pairs)


def _edge_dict(pairs, fixed=None):
    items = ["(%d, %d): e%d%d" % (i, j, i, j) for (i, j) in pairs]
    for (p, b) in (fixed or {}).items():
        items.append("(%d, %d): %r" % (p[0], p[1], b))
    return "{" + ", ".join(items) + "}"


def harnesses(ctx) -> List[H]:
    hs: List[H] = []
    np_, nk = len(SCHEMA_POSITIONS), len(UNSUPPORTED)
    hs.append(mk("c20_keyword_positions_parse", "pos: int, kw: int", [f"0 <= pos < {np_}", f"0 <= kw < {nk}"], "return refused(pos, kw, 0)", timeout=200, group="keywords",
                 covers=f"{np_} schema positions x {nk} unsupported keywords through parse()"))
    hs.append(mk("c20_keyword_positions_parse_element", "pos: int, kw: int", [f"0 <= pos < {np_}", f"0 <= kw < {nk}"], "return refused(pos, kw, 1)", timeout=200, group="keywords",
                 covers="same through parse_element()"))
    hs.append(mk("c20_keyword_literal_positions", "lit: int, kw: int", [f"0 <= lit < {len(LITERAL_INJECTIONS)}", f"0 <= kw < {nk}"], "return literal_ok(lit, kw)", timeout=200, group="keywords",
                 covers="unsupported keyword names at literal (non-schema) positions must NOT be refused"))
    hs.append(mk("c20_keyword_under_templates", "kw: int, tpl: int", [f"0 <= kw < {nk}", "0 <= tpl < 6"], "return under_template(kw, tpl)", timeout=200, group="keywords",
                 covers="unsupported keyword nested inside composition/object/array templates"))
    hs.append(mk("c20_keyword_main", "pos: int, kw: int", [f"0 <= pos < {np_}", f"0 <= kw < {nk}"], """
doc = base_doc()
if run_main(doc) != "ok":
    return False
name = UNSUPPORTED[kw]
_at(doc, SCHEMA_POSITIONS[pos])[name] = KW_VALUE[name]
return run_main(doc) == "not-implemented"
""", timeout=300, group="keywords", tier="thorough", covers="same through a file and main()"))
    hs.append(mk("c20_materialized_cycle", "cyc: bool", [], "return materialized_cycle_ok(cyc)", timeout=60, group="cycles"))
    all2 = [(i, j) for i in range(2) for j in range(2)]
    for pos in range(len(REF_POSITIONS)):
        hs.append(mk(f"c20_cycles_n2_pos{pos}", _edge_args(all2) + ", r0: bool, r1: bool", [],
                     f"return cycles_ok(2, {_edge_dict(all2)}, [r0, r1], {pos})", timeout=200, group="cycles", tier="quick" if pos in (0, 1, 2) else "thorough",
                     covers=f"root + 2 definitions, 16 reference graphs incl. self-references x 4 root link sets, reference position {pos}; through main()"))
    hs.append(mk("c20_cycles_root_ref", _edge_args(all2), [], f"return cycles_ok(2, {_edge_dict(all2)}, [False, False], 0, True)", timeout=200, group="cycles",
                 covers="document whose root is itself a $ref into the definitions"))
    all3 = [(i, j) for i in range(3) for j in range(3)]
    sym, fix = all3[:5], all3[5:]
    for part in range(16):
        fixed = {p: bool((part >> k) & 1) for k, p in enumerate(fix)}
        hs.append(mk(f"c20_cycles_n3_p{part:02d}", _edge_args(sym) + ", pos: int", ["0 <= pos < 6"],
                     f"return cycles_ok(3, {_edge_dict(sym, fixed)}, [True, False, part_root], pos)".replace("part_root", str(bool(part % 2))), timeout=400, group="cycles", tier="thorough",
                     covers=f"root + 3 definitions, partition {part}/16 of the 512 reference graphs, symbolic reference position"))
    hs.append(mk("c20__refused", "pos: int, kw: int", [f"0 <= pos < {np_}", f"0 <= kw < {nk}"],
                 "doc = base_doc()\n_at(doc, SCHEMA_POSITIONS[pos])[UNSUPPORTED[kw]] = KW_VALUE[UNSUPPORTED[kw]]\nreturn outcome(parse, doc) != 'not-implemented'", kind="witness", timeout=30))
    hs.append(mk("c20__acyclic_main", "e01: bool", [], "return not (e01 and cycles_ok(2, {(0, 1): e01}, [True, False], 0))", kind="witness", timeout=60))
    return hs


def _demo_root_ref_cycle():
    return not cycles_ok(2, {(0, 1): True, (1, 0): True}, [False, False], 0, True)


DEMOS = {"C20-root-ref-recursion": _demo_root_ref_cycle}
