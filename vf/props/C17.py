"""C17 - equal elements are interchangeable (E1: congruence of == with validation and serialization)."""
from typing import List

from vf.harness import H, mk

EXPLANATION = (
    "Pairs (E1, E2) are built from the same template with independent symbolic holes, and from templates differing in one keyword, "
    "literal, property attribute or element class. z3 decides on every path: E == E; (E1 == E2) == (E2 == E1); equal holes give equal "
    "elements; and E1 == E2 implies accepts(E1, v) == accepts(E2, v) for all values in the shape and type-aware equality of the two "
    "JSON serializations. Numeric/literal holes are Union[int, bool] so that True vs 1 is in range. The users of equality (class "
    "de-duplication in the parser, definitions lookup in serialize_json) are exercised with the same pairs."
)
ASSUMPTIONS = []
FUNCTIONS = ["statham.schema.elements.base:Element.__eq__", "statham.schema.property:_Property.__eq__", "statham.schema.parser:_ParseState.dedupe",
             "statham.serializers.json:_from_definitions"]


def congruent(e1, e2, v):
    from vf.common import accepts, serialize_json, jeq, jcopy

    if not (e1 == e1) or not (e2 == e2):
        return False
    eq12 = e1 == e2
    eq21 = e2 == e1
    if bool(eq12) != bool(eq21):
        return False
    if not eq12:
        return True
    if accepts(e1, jcopy(v)) != accepts(e2, jcopy(v)):
        return False
    j1, j2 = serialize_json(e1), serialize_json(e2)
    if isinstance(j1, dict) and isinstance(j2, dict):
        # the class name (title) is an annotation that ObjectMeta equality deliberately ignores
        j1 = {k: x for k, x in j1.items() if k != "title"}
        j2 = {k: x for k, x in j2.items() if k != "title"}
    return jeq(j1, j2)


def must_be_equal(e1, e2):
    return (e1 == e2) and (e2 == e1)


def edited_vs_built(m, typed, pattern_too, v):
    """an element used once, then edited in place, vs an independently built element with the same configuration"""
    from vf.common import Element, Object, Property, Integer, accepts

    mk1 = (lambda **kw: Object.inline("E", **kw)) if typed else (lambda **kw: Element(**kw))
    e1 = mk1(properties={}, patternProperties={"^z": Integer()}) if pattern_too else mk1(properties={})
    accepts(e1, {"a": "x"})
    accepts(e1, {})
    e1.properties["a"] = Property(Integer(minimum=m), required=True)
    if pattern_too:
        e1.patternProperties["^c"] = Integer(maximum=m)
    pats = {"^z": Integer(), "^c": Integer(maximum=m)} if pattern_too else None
    e2 = mk1(properties={"a": Property(Integer(minimum=m), required=True)}, patternProperties=pats) if pattern_too else mk1(properties={"a": Property(Integer(minimum=m), required=True)})
    return congruent(e1, e2, v) and (e1 == e2)


def rebuild_equal(make):
    a = make()
    b = make()
    return a == b and b == a and not (a != b)


def dedupe_ok(S1, S2, v):
    """two object schemas with the same title in one document: if statham shares one class, the
    shared class must validate like each of them."""
    from vf.common import parse_s, accepts, jcopy

    doc = {"type": "object", "title": "Root", "properties": {"p": S1, "q": S2}}
    root = parse_s(doc)
    cp, cq = root.properties["p"].element, root.properties["q"].element
    a, b = parse_s(S1), parse_s(S2)
    if accepts(cp, jcopy(v)) != accepts(a, jcopy(v)):
        return False
    if accepts(cq, jcopy(v)) != accepts(b, jcopy(v)):
        return False
    if cp is cq:
        return True
    return cp.__name__ != cq.__name__


def definitions_ok(make, make_def, v):
    """replacing elements equal to a definition by a $ref never changes meaning."""
    from vf.common import serialize_json, deref, parse_element, accepts, jcopy

    E = make()
    doc = serialize_json(E, definitions={"D": make_def()})
    E2 = parse_element(deref(doc))
    return accepts(E, jcopy(v)) == accepts(E2, jcopy(v))


LIT = "Union[int, bool]"
SV = "Union[int, bool, str, None]"
SVPRE = ["not isinstance(v, str) or len(v) <= 2"]
DV = "Dict[str, int]"
DPRE = ["len(v) <= 2", "all(k in ('a', 'b', 'c') for k in v)"]

# name: (hole args for e1+e2, pre, expr1, expr2, value type, value pre, tier)
PAIRS = {
    "const": (f"c1: {LIT}, c2: {LIT}", [], "Element(const=c1)", "Element(const=c2)", SV, SVPRE, "quick"),
    "enum": (f"c1: {LIT}, c2: {LIT}", [], "Element(enum=[c1, 2])", "Element(enum=[c2, 2])", SV, SVPRE, "quick"),
    "const_nested": (f"c1: {LIT}, c2: {LIT}", [], "Element(const=[c1])", "Element(const=[c2])", "Union[int, List[Union[int, bool]]]", ["not isinstance(v, list) or len(v) <= 2"], "quick"),
    "default": (f"c1: {LIT}, c2: {LIT}", [], "Integer(default=c1)", "Integer(default=c2)", SV, SVPRE, "thorough"),
    "minimum": ("c1: int, c2: int", [], "Integer(minimum=c1)", "Integer(minimum=c2)", SV, SVPRE, "quick"),
    "multipleOf": ("c1: int, c2: int", ["c1 > 0", "c2 > 0"], "Element(multipleOf=c1)", "Element(multipleOf=c2)", SV, SVPRE, "thorough"),
    "unique": ("c1: bool, c2: bool", [], "Element(uniqueItems=c1)", "Element(uniqueItems=c2)", "Union[int, List[int]]", ["not isinstance(v, list) or len(v) <= 2"], "quick"),
    "addl_bool_vs_elem": ("b: bool, c: bool", [], "Element(additionalProperties=b)", "Element(additionalProperties=(Element() if c else Nothing()))", DV, DPRE, "quick"),
    "addl_items": ("b: bool, c: bool", [], "Element(items=[Integer()], additionalItems=b)", "Element(items=[Integer()], additionalItems=c)", "List[int]", ["len(v) <= 2"], "thorough"),
    "int_vs_number": ("m: int, n: int", [], "Integer(minimum=m)", "Number(minimum=n)", "Union[int, bool]", [], "quick"),
    "anyof_vs_oneof": ("m: int, n: int", [], "AnyOf(Integer(minimum=m), Integer(maximum=n))", "OneOf(Integer(minimum=m), Integer(maximum=n))", "Union[int, bool]", [], "quick"),
    "anyof_order": ("m: int, n: int", [], "AnyOf(Integer(minimum=m), String())", "AnyOf(String(), Integer(minimum=n))", SV, SVPRE, "quick"),
    "comp_branch_multiset": ("a: bool, b: bool, c: bool, k: int", ["0 <= k < 3"], "(AnyOf, OneOf, AllOf)[concretize_int(k, 0, 2)](Integer(), (Integer() if a else String()), String())", "(AnyOf, OneOf, AllOf)[concretize_int(k, 0, 2)](Integer(), (Integer() if b else String()), (Boolean() if c else String()))", SV, SVPRE, "quick"),
    "comp_branch_permutation": ("p: int, m: int, k: int", ["0 <= p < 6", "0 <= k < 3"], "(AnyOf, OneOf, AllOf)[concretize_int(k, 0, 2)](Integer(minimum=m), Number(), Element(maximum=m))", "(AnyOf, OneOf, AllOf)[concretize_int(k, 0, 2)](*[(Integer(minimum=m), Number(), Element(maximum=m))[i] for i in ((0, 1, 2), (0, 2, 1), (1, 0, 2), (1, 2, 0), (2, 0, 1), (2, 1, 0))[concretize_int(p, 0, 5)]])", "Union[int, bool]", [], "quick"),
    "element_vs_nothing": ("b: bool", [], "Element()", "(Element() if b else Nothing())", SV, SVPRE, "quick"),
    "not": ("m: int, n: int", [], "Not(Integer(minimum=m))", "Not(Integer(minimum=n))", SV, SVPRE, "thorough"),
    "array_items": ("m: int, n: int", [], "Array(Integer(minimum=m))", "Array(Integer(minimum=n), minItems=0)", "List[int]", ["len(v) <= 2"], "thorough"),
    "prop_required": ("r1: bool, r2: bool, m: int", [], 'Element(properties={"a": Property(Integer(minimum=m), required=r1)})', 'Element(properties={"a": Property(Integer(minimum=m), required=r2)})', DV, DPRE, "quick"),
    "prop_source": ("s1: bool, s2: bool", [], 'Element(properties={"a": Property(Integer(), source=("b" if s1 else None))})', 'Element(properties={"a": Property(Integer(), source=("b" if s2 else "a"))})', DV, DPRE, "quick"),
    "prop_name": ("s1: bool", [], 'Element(properties={"a": Property(Integer(), source="c")}, additionalProperties=False)', 'Element(properties={("a" if s1 else "b"): Property(Integer(), source="c")}, additionalProperties=False)', DV, DPRE, "quick"),
    "prop_required_shared_elem": ("r1: bool, r2: bool, m: int", [], 'Element(properties={"a": Property((sh := Integer(minimum=m)), required=r1)})', 'Element(properties={"a": Property(sh, required=r2)})', DV, DPRE, "quick"),
    "prop_source_shared_elem": ("s1: bool, s2: bool, m: int", [], 'Element(properties={"a": Property((sh := Integer(minimum=m)), required=True, source=("b" if s1 else "a"))})', 'Element(properties={"a": Property(sh, required=True, source=("b" if s2 else "a"))})', DV, DPRE, "quick"),
    "prop_shared_class_elem": ("r1: bool, r2: bool, m: int", [], 'Element(properties={"a": Property((sh := _P(m)), required=r1)})', 'Element(properties={"a": Property(sh, required=r2)})', "Dict[str, Dict[str, int]]", ["len(v) <= 1", "all(k in ('a', 'b') for k in v)", "all(len(d) <= 1 and all(k in ('a', 'x') for k in d) for d in v.values())"], "quick"),
    "required_list": ("s1: bool, s2: bool", [], 'Element(required=(["a"] if s1 else ["a", "b"]))', 'Element(required=(["a"] if s2 else ["b", "a"]))', DV, DPRE, "quick"),
    "class_vs_class": ("m: int, n: int, r: bool", [], 'Object.inline("M", properties={"a": Property(Integer(minimum=m), required=r)})', 'Object.inline("M", properties={"a": Property(Integer(minimum=n), required=True)})', DV, DPRE, "quick"),
    "class_names": ("m: int, n: int", [], 'Object.inline("M", properties={"a": Property(Integer(minimum=m))})', 'Object.inline("N", properties={"a": Property(Integer(minimum=n))})', DV, DPRE, "thorough"),
    "class_vs_subclass": ("m: int", [], '_P(m)', '_Sub(m)', DV, DPRE, "quick"),
    "none_vs_absent_const": ("f1: bool, f2: bool", [], 'Element(**({"const": None} if f1 else {}))', 'Element(**({"const": None} if f2 else {}))', SV, SVPRE, "quick"),
    "none_vs_absent_default": ("f1: bool, f2: bool", [], 'AnyOf(String(), Null(), **({"default": None} if f1 else {}))', 'AnyOf(String(), Null(), **({"default": None} if f2 else {}))', SV, SVPRE, "quick"),
    "none_vs_absent_nested": ("f1: bool, f2: bool", [], 'Element(items=Element(**({"const": None} if f1 else {})), properties={"a": Property(Null(**({"default": None} if f1 else {})))})', 'Element(items=Element(**({"const": None} if f2 else {})), properties={"a": Property(Null(**({"default": None} if f2 else {})))})', "Union[List[Union[int, None]], Dict[str, int]]", ["not isinstance(v, list) or len(v) <= 2", "not isinstance(v, dict) or (len(v) <= 1 and all(k in ('a', 'b') for k in v))"], "quick"),
    "falsy_vs_absent": ("f1: int, f2: int", ["0 <= f1 < 6", "0 <= f2 < 6"], 'Element(**(({}, {"const": 0}, {"const": False}, {"const": ""}, {"const": []}, {"enum": [None]})[f1]))', 'Element(**(({}, {"const": 0}, {"const": False}, {"const": ""}, {"const": []}, {"enum": [None]})[f2]))', SV, SVPRE, "quick"),
    "class_description": ("d1: bool, d2: bool, m: int", [], 'Object.inline("M", properties={"a": Property(Integer(minimum=m))}, description=("x" if d1 else "y"))', 'Object.inline("M", properties={"a": Property(Integer(minimum=m))}, description=("x" if d2 else "y"))', DV, DPRE, "quick"),
    "element_description": ("d1: bool, d2: bool, m: int", [], 'Integer(minimum=m, description=("x" if d1 else "y"))', 'Integer(minimum=m, description=("x" if d2 else NotPassed()))', SV, SVPRE, "quick"),
    "inherited_kw_vs_flat_without": ("m: int", [], '_inheriting(m)', 'Object.inline("K", properties={"a": Property(Integer(minimum=m))})', DV, DPRE, "quick"),
    "inherited_kw_vs_flat_with": ("m: int, same: bool", [], '_inheriting(m)', 'Object.inline("K", properties={"a": Property(Integer(minimum=m))}, minProperties=(1 if same else 2), required=["b"], propertyNames=String(maxLength=2))', DV, DPRE, "quick"),
    "class_keywords": ("m: int, n: int, b: bool", [], 'Object.inline("M", minProperties=m, additionalProperties=b)', 'Object.inline("M", minProperties=n, additionalProperties=True)', DV, DPRE + ["m >= 0", "n >= 0"], "thorough"),
    "class_vs_element": ("m: int", [], 'Object.inline("M", properties={"a": Property(Integer(minimum=m))})', 'Element(properties={"a": Property(Integer(minimum=m))})', DV, DPRE, "thorough"),
    "pattern_props": ("m: int, n: int", [], 'Element(patternProperties={"^a": Integer(minimum=m)})', 'Element(patternProperties={"^a": Integer(minimum=n)})', DV, DPRE, "thorough"),
    "dependencies": ("s1: bool", [], 'Element(dependencies={"a": ["b"]})', 'Element(dependencies={"a": (["b"] if s1 else Element(required=["b"]))})', DV, DPRE, "thorough"),
    "dependencies_key_order": ("m: int, n: int, sw: bool", [], 'Element(dependencies={"a": Element(required=["b"]), "b": Element(properties={"a": Property(Integer(minimum=m))}), "ab": ["a"]})',
                               'Element(dependencies=dict(list({"a": Element(required=["b"]), "b": Element(properties={"a": Property(Integer(minimum=n))}), "ab": ["a"]}.items())[::(-1 if sw else 1)]))', DV, DPRE, "quick"),
    "properties_key_order": ("m: int, n: int, sw: bool", [], 'Element(properties={"a": Property(Integer(minimum=m)), "b": Property(Integer(maximum=m))}, patternProperties={"^a": Integer(multipleOf=2), "b$": Integer(maximum=n)})',
                             'Element(properties=dict(list({"a": Property(Integer(minimum=m)), "b": Property(Integer(maximum=m))}.items())[::(-1 if sw else 1)]), patternProperties=dict(list({"^a": Integer(multipleOf=2), "b$": Integer(maximum=n)}.items())[::(-1 if sw else 1)]))', DV, DPRE, "quick"),
    "parsed_vs_dsl": ("m: int, n: int", [], 'parse_s({"type": "integer", "minimum": m})', 'Integer(minimum=n)', SV, SVPRE, "quick"),
}


def _inheriting(m):
    """class K that INHERITS its class keywords from a parent model class"""
    from vf.common import Object, ObjectMeta, Property, Integer, String
    from statham.schema.elements.meta import ObjectClassDict

    Base = Object.inline("Base", minProperties=1, required=["b"], propertyNames=String(maxLength=2))
    cd = ObjectClassDict()
    cd["a"] = Property(Integer(minimum=m))
    return ObjectMeta("K", (Base,), cd)


def _P(m):
    from vf.common import Object, Property, Integer

    return Object.inline("P", properties={"a": Property(Integer(minimum=m), required=True)})


def _Sub(m):
    P = _P(m)

    class P2(P):  # type: ignore
        pass

    P2.__name__ = "P"
    return P2


def harnesses(ctx) -> List[H]:
    hs: List[H] = []
    for name, (hargs, pre, e1, e2, vt, vpre, tier) in PAIRS.items():
        excl = []
        if name == "falsy_vs_absent":
            excl = ctx.excl("C17-bool-number-equal", "{f1, f2} != {1, 2}")
        if "c1" in hargs and "c2" in hargs and LIT in hargs:
            excl = ctx.excl("C17-bool-number-equal", "(c1 != c2) or (isinstance(c1, bool) == isinstance(c2, bool))")
        body = f"""
e1 = {e1}
e2 = {e2}
return congruent(e1, e2, v)
"""
        hs.append(mk(f"c17_pair_{name}", f"{hargs}, v: {vt}", pre + vpre + excl, body, tier=tier, timeout=90, group="pair", covers=f"{e1}  vs  {e2}"))
        body = f"""
def make():
    return {e1}
return rebuild_equal(make)
"""
        hargs1 = hargs
        hs.append(mk(f"c17_rebuild_{name}", hargs1, pre + [p for p in excl], body, tier="thorough" if tier == "thorough" else "quick", timeout=40, group="rebuild"))
    hs.append(mk("c17_inherited_equals_flat_copy", "m: int", [],
                 'return must_be_equal(_inheriting(m), Object.inline("K", properties={"a": Property(Integer(minimum=m))}, minProperties=1, required=["b"], propertyNames=String(maxLength=2)))',
                 timeout=60, group="rebuild", covers="a class inheriting its keywords equals an independently built flat class with the same keywords"))
    # reachability: equal pair reached, unequal pair reached
    hs.append(mk("c17__equal", "m: int, n: int", [], "return not (Integer(minimum=m) == Integer(minimum=n))", kind="witness", timeout=20))
    hs.append(mk("c17__unequal", "m: int, n: int", [], "return Integer(minimum=m) == Integer(minimum=n)", kind="witness", timeout=20))
    # users of equality
    hs.append(mk("c17_dedupe_same_title", f"m: int, n: int, v: {DV}", DPRE, """
S1 = {"type": "object", "title": "In", "properties": {"a": {"minimum": m}}}
S2 = {"type": "object", "title": "In", "properties": {"a": {"minimum": n}}}
return dedupe_ok(S1, S2, v)
""", timeout=90, group="users"))
    excl = ctx.excl("C17-bool-number-equal", "(c1 != c2) or (isinstance(c1, bool) == isinstance(c2, bool))")
    hs.append(mk("c17_dedupe_const", f"c1: {LIT}, c2: {LIT}, v: {DV}", DPRE + excl, """
S1 = {"type": "object", "title": "In", "properties": {"a": {"const": c1}}}
S2 = {"type": "object", "title": "In", "properties": {"a": {"const": c2}}}
return dedupe_ok(S1, S2, v)
""", timeout=240, group="users"))
    hs.append(mk("c17_definitions_const", f"c1: {LIT}, c2: {LIT}, v: {DV}", DPRE + excl, """
def make():
    return Element(properties={"a": Property(Element(const=c1))}, additionalProperties=Element(enum=[c2]))
def make_def():
    return Element(const=c2)
return definitions_ok(make, make_def, v)
""", timeout=90, group="users"))
    hs.append(mk("c17_dedupe_shared_child", f"r1: bool, r2: bool, m: int, v: Dict[str, Dict[str, int]]",
                 ["len(v) <= 1", "all(k in ('child', 'b') for k in v)", "all(len(d) <= 1 and all(k in ('n', 'x') for k in d) for d in v.values())"], """
child = {"type": "object", "title": "Child", "properties": {"n": {"minimum": m}}}
S1 = {"type": "object", "title": "Item", "properties": {"child": child}, "required": (["child"] if r1 else [])}
S2 = {"type": "object", "title": "Item", "properties": {"child": child}, "required": (["child"] if r2 else [])}
return dedupe_ok(S1, S2, v)
""", timeout=120, group="users", covers="two same-titled object schemas sharing one (dereferenced) child schema object, differing only in required"))
    hs.append(mk("c17_edited_vs_built", f"m: int, typed: bool, pattern_too: bool, v: {DV}", DPRE, "return edited_vs_built(m, typed, pattern_too, v)", timeout=200, group="users",
                 covers="element / model class with initially EMPTY properties, validated, then edited in place (properties item, patternProperties item) vs an independently built equal one"))
    hs.append(mk("c17_definitions_min", f"m: int, n: int, v: {DV}", DPRE, """
def make():
    return Element(properties={"a": Property(Integer(minimum=m))}, additionalProperties=Number(minimum=m))
def make_def():
    return Integer(minimum=n)
return definitions_ok(make, make_def, v)
""", timeout=90, group="users"))
    return hs


def _demo_bool_number_equal():
    from vf.common import Element, accepts

    a, b = Element(const=True), Element(const=1)
    return (a == b) and accepts(a, True) != accepts(b, True)


DEMOS = {"C17-bool-number-equal": _demo_bool_number_equal}
