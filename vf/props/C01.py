"""C01 - validation verdicts match JSON Schema Draft 6 (E1 differential vs ref6, E2 multipleOf kernel)."""
from typing import List

from vf.harness import H, mk

EXPLANATION = (
    "Differential symbolic execution: for each schema template S (holes symbolic) and value shape, CrossHair explores every "
    "path of parse_element(S)(v) in the real statham modules and of ref6(S, v); z3 must show accepts == ref6 on every path. "
    "Bounds are the pre: lines of each condition; templates/shapes are enumerated (DESIGN 3.1)."
)
ASSUMPTIONS = [
    "ref6 (vf/ref6.py) is the Draft-6 reading, with statham's documented deviations",
    "patterns restricted to a pool with identical meaning in Python re and ECMA-262",
    "float values/parameters only through the E2 multipleOf kernel and concrete dyadic constants",
]
FUNCTIONS = [
    "statham.schema.parser:parse_element", "statham.schema.elements.base:Element.__call__",
    "statham.schema.validation:get_validators", "statham.schema.validation.*:_validate",
    "statham.schema.elements.properties:Properties", "statham.schema.elements.items:Items",
    "statham.schema.elements.composition:_attempt_schemas",
]

SCALAR = "Union[int, bool, str, None]"
SCALAR_PRE = ["not isinstance(v, str) or len(v) <= 3"]


def _triple(name, args, pre, schema, tier="quick", timeout=40, group="", covers="", expect="confirmed", twins=True, setup="") -> List[H]:
    """claim + two reachability twins for `accepts(parse(S), v) == ref6(S, v)`."""
    body = f"""
{setup}
S = {schema}
return accepts(parse_s(S), v) == oracle(S, v)
"""
    out = [mk(name, args, pre, body, tier=tier, timeout=timeout, group=group, covers=covers or schema, expect=expect)]
    if twins:
        acc = f"""
{setup}
S = {schema}
return not (accepts(parse_s(S), v) and oracle(S, v))
"""
        rej = f"""
{setup}
S = {schema}
return not ((not accepts(parse_s(S), v)) and (not oracle(S, v)))
"""
        out.append(mk(name + "__acc", args, pre, acc, tier=tier, timeout=min(timeout, 30), kind="witness", group=group, covers="reachability twin: some value accepted"))
        out.append(mk(name + "__rej", args, pre, rej, tier=tier, timeout=min(timeout, 30), kind="witness", group=group, covers="reachability twin: some value rejected"))
    return out


def harnesses(ctx) -> List[H]:
    hs: List[H] = []
    # ---------------- num family
    for kw in ("minimum", "maximum", "exclusiveMinimum", "exclusiveMaximum"):
        for typ in (None, "integer", "number"):
            t = "" if typ is None else f'"type": "{typ}", '
            hs += _triple(
                f"c01_num_{kw}_{typ or 'any'}",
                f"m: int, v: {SCALAR}",
                SCALAR_PRE,
                f'{{{t}"{kw}": m}}',
                group="num",
                tier="quick" if typ != "number" else "thorough",
            )
    return hs
