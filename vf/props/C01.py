"""C01 - validation verdicts match JSON Schema Draft 6 (E1 differential vs ref6, E2 multipleOf kernel)."""
import itertools
from typing import List

from vf.harness import H, mk

EXPLANATION = (
    "Differential symbolic execution: for each schema template S (holes symbolic) and value shape, CrossHair explores every "
    "path of parse_element(S)(v) in the real statham modules and of ref6(S, v); z3 must show accepts == ref6 on every path. "
    "Bounds are the pre: lines of each condition; templates/shapes are enumerated (DESIGN 3.1)."
)
ASSUMPTIONS = [
    "ref6 (vf/ref6.py) is the Draft-6 reading, with statham's documented deviations",
    "patterns restricted to a pool with identical meaning in Python re and ECMA-262",
    "float values/parameters only through the E2 multipleOf kernel and concrete dyadic constants",
    "object-typed schemas carry a title (statham's parser requires title/_x_autotitle, which `main` adds automatically)",
]
FUNCTIONS = [
    "statham.schema.parser:parse_element", "statham.schema.elements.base:Element.__call__",
    "statham.schema.validation:get_validators", "statham.schema.validation.*:_validate",
    "statham.schema.elements.properties:Properties", "statham.schema.elements.items:Items",
    "statham.schema.elements.composition:_attempt_schemas",
]

SCALAR = "Union[int, bool, str, None]"
SCALAR_PRE = ["not isinstance(v, str) or len(v) <= 3"]
POOL = ("a", "b", "a b", "class", "ab")
DPRE = ["len(v) <= 2", "all(k in ('a', 'b', 'a b', 'class', 'ab') for k in v)"]


def _triple(name, args, pre, schema, tier="quick", timeout=40, group="", covers="", expect="confirmed",
            twins=True, setup="", waive=True, twin_tier=None) -> List[H]:
    """claim + two reachability twins for `accepts(parse(S), v) == ref6(S, v)`."""
    w = "" if waive else ", False"
    body = f"""
{setup}
S = {schema}
return accepts(parse_s(S), v) == oracle(S, v{w})
"""
    out = [mk(name, args, pre, body, tier=tier, timeout=timeout, group=group, covers=covers or schema, expect=expect)]
    if twins:
        which = ("acc", "rej") if twins is True or twins == "both" else (twins,)
        acc = f"""
{setup}
S = {schema}
return not (accepts(parse_s(S), v) and oracle(S, v{w}))
"""
        rej = f"""
{setup}
S = {schema}
return not ((not accepts(parse_s(S), v)) and (not oracle(S, v{w})))
"""
        tt = twin_tier or tier
        if "acc" in which:
            out.append(mk(name + "__acc", args, pre, acc, tier=tt, timeout=min(timeout, 30), kind="witness", group=group, covers="reachability twin: some value accepted"))
        if "rej" in which:
            out.append(mk(name + "__rej", args, pre, rej, tier=tt, timeout=min(timeout, 30), kind="witness", group=group, covers="reachability twin: some value rejected"))
    return out


LEAVES = {
    "T": "True",
    "F": "False",
    "min": '{"minimum": m}',
    "int": '{"type": "integer"}',
    "str": '{"type": "string"}',
    "req": '{"required": ["a"]}',
    "maxlen": '{"maxLength": n}',
}
COMPV = "Union[int, bool, str, None, Dict[str, int]]"
COMPV_PRE = [
    "not isinstance(v, str) or len(v) <= 3",
    "not isinstance(v, dict) or (len(v) <= 1 and all(k in ('a', 'b') for k in v))",
    "n >= 0",
]


def harnesses(ctx) -> List[H]:
    hs: List[H] = []
    Q, T = "quick", "thorough"

    # ------------------------------------------------------------ num family
    for kw in ("minimum", "maximum", "exclusiveMinimum", "exclusiveMaximum"):
        for typ in (None, "integer", "number"):
            t = "" if typ is None else f'"type": "{typ}", '
            hs += _triple(f"c01_num_{kw}_{typ or 'any'}", f"m: int, v: {SCALAR}", SCALAR_PRE,
                          f'{{{t}"{kw}": m}}', group="num", tier=Q if typ != "number" else T,
                          twin_tier=Q if typ is None else T)
    for typ in (None, "integer"):
        t = "" if typ is None else f'"type": "{typ}", '
        hs += _triple(f"c01_num_multipleOf_{typ or 'any'}", f"m: int, v: {SCALAR}", SCALAR_PRE + ["m > 0"],
                      f'{{{t}"multipleOf": m}}', group="num", timeout=60, twin_tier=Q if typ is None else T)
    # dyadic float bounds with int values (float constant concrete)
    for kw, c in (("minimum", "0.5"), ("exclusiveMaximum", "2.0"), ("maximum", "-1.25")):
        hs += _triple(f"c01_num_{kw}_float", f"v: {SCALAR}", SCALAR_PRE, f'{{"type": "number", "{kw}": {c}}}', group="num", tier=T)
    NF = "Union[int, float, bool]"
    hs += _triple("c01_num_float_value_bounds", f"a: int, b: int, v: {NF}", ["finite_json(v)"], '{"type": "number", "minimum": a, "exclusiveMaximum": b}', group="num", timeout=60)
    hs += _triple("c01_num_float_value_integer_type", f"a: int, v: {NF}", ["finite_json(v)"], '{"type": ["integer", "boolean"], "maximum": a}', group="num", timeout=60,
                  covers="1.0 is NOT an integer (documented deviation); floats against an integer-typed schema")
    hs += _triple("c01_num_float_value_const", f"c: int, v: {NF}", ["finite_json(v)"], '{"enum": [c, True]}', group="lit", timeout=60, covers="1.0 equals 1 under JSON equality, True does not")
    hs += _triple("c01_num_const", f"c: Union[int, bool, None], v: {SCALAR}", SCALAR_PRE, '{"const": c}', group="lit")
    hs += _triple("c01_num_enum", f"c1: Union[int, bool], c2: Union[int, bool, None], v: {SCALAR}", SCALAR_PRE,
                  '{"enum": [c1, c2]}', group="lit")
    hs += _triple("c01_num_const_typed", f"c: Union[int, bool], v: {SCALAR}", SCALAR_PRE,
                  '{"type": ["integer", "boolean"], "const": c}', group="lit", tier=T)
    # symbolic presence flags for all five numeric keywords at once
    hs += _triple(
        "c01_num_flags", f"f1: bool, f2: bool, f3: bool, f4: bool, f5: bool, a: int, b: int, c: int, d: int, m: int, v: Union[int, bool]",
        ["m > 0"],
        "S0",
        setup="""
S0 = {"type": "integer"}
if f1: S0["minimum"] = a
if f2: S0["maximum"] = b
if f3: S0["exclusiveMinimum"] = c
if f4: S0["exclusiveMaximum"] = d
if f5: S0["multipleOf"] = m
""", group="num", tier=T, timeout=150, covers="integer schema with any subset of the five numeric keywords")
    hs += _triple("c01_num_range", f"a: int, b: int, v: Union[int, bool, str]", SCALAR_PRE,
                  '{"minimum": a, "exclusiveMaximum": b}', group="num")

    # ------------------------------------------------------------ str family
    SV = "Union[str, int, bool]"
    SPRE = ["not isinstance(v, str) or len(v) <= 4"]
    for kw in ("minLength", "maxLength"):
        for typ in (None, "string"):
            t = "" if typ is None else f'"type": "{typ}", '
            hs += _triple(f"c01_str_{kw}_{typ or 'any'}", f"n: int, v: {SV}", SPRE + ["n >= 0"], f'{{{t}"{kw}": n}}',
                          group="str", twin_tier=Q if typ is None else T)
    PATS = {"caret_a": "^a", "b_dollar": "b$", "a_dot_c": "a.c", "digits": "[0-9]+", "empty": "^$"}
    for pn, pat in PATS.items():
        hs += _triple(f"c01_str_pattern_{pn}", f"v: {SV}", SPRE, f'{{"pattern": {pat!r}}}', group="str",
                      tier=Q if pn in ("caret_a", "a_dot_c") else T, timeout=60)
    hs += _triple("c01_str_len_pattern", f"n: int, k: int, v: {SV}", SPRE + ["n >= 0", "k >= 0"],
                  '{"type": "string", "minLength": n, "maxLength": k, "pattern": "^a"}', group="str", tier=T, timeout=90)
    hs += _triple("c01_str_const", f"c: str, v: {SV}", SPRE + ["len(c) <= 2"], '{"const": c}', group="lit")
    hs += _triple("c01_str_enum", f"c: str, v: {SV}", SPRE + ["len(c) <= 2"], '{"type": "string", "enum": [c, "ab", 1]}', group="lit", tier=T)

    # ------------------------------------------------------------ arr family
    LV = "Union[List[Union[int, bool]], int, None]"
    LPRE = ["not isinstance(v, list) or len(v) <= 3"]
    hs += _triple("c01_arr_items_single", f"m: int, v: {LV}", LPRE, '{"items": {"minimum": m}}', group="arr")
    hs += _triple("c01_arr_items_single_typed", f"m: int, v: {LV}", LPRE, '{"type": "array", "items": {"type": "integer", "maximum": m}}', group="arr")
    for an, addl in (("absent", None), ("true", "True"), ("false", "False"), ("schema", '{"maximum": m}')):
        a = "" if addl is None else f', "additionalItems": {addl}'
        hs += _triple(f"c01_arr_tuple_addl_{an}", f"m: int, v: {LV}", LPRE,
                      f'{{"items": [{{"type": "integer"}}, {{"type": "boolean"}}]{a}}}', group="arr",
                      tier=Q if an in ("false", "schema") else T)
        hs += _triple(f"c01_arr_typed_tuple_addl_{an}", f"m: int, v: {LV}", LPRE,
                      f'{{"type": "array", "items": [{{"minimum": m}}]{a}}}', group="arr", tier=T)
    # boolean and empty sub-schemas in item positions
    for nm, items in (("false", "False"), ("true", "True"), ("tuple_false", "[False]"), ("tuple_true_false", "[True, False]"), ("empty_obj", "{}")):
        for an, addl in (("absent", None), ("false", "False"), ("schema", '{"maximum": m}')):
            a = "" if addl is None else f', "additionalItems": {addl}'
            for typed in (False, True):
                t = '"type": "array", ' if typed else ""
                hs += _triple(f"c01_arr_items_{nm}_addl_{an}{'_typed' if typed else ''}", f"m: int, v: {LV}", LPRE, f'{{{t}"items": {items}{a}}}', group="arr",
                              tier=Q if (nm in ("false", "tuple_false") and an in ("absent", "schema") and not typed) else T, twins=(nm == "tuple_false" and an == "schema"))
    hs += _triple("c01_obj_bool_members", f"b1: bool, b2: bool, b3: bool, v: {{DV}}".replace("{DV}", "Dict[str, int]"), DPRE,
                  '{"properties": {"a": b1, "a b": True}, "patternProperties": {"b$": b2}, "additionalProperties": b3, "dependencies": {"class": b1}}', group="obj", timeout=300,
                  covers="boolean sub-schemas as property / pattern / additional / dependency schemas")
    # additionalItems must be ignored when items is not a tuple
    hs += _triple("c01_arr_addl_without_tuple", f"m: int, v: {LV}", LPRE, '{"items": {"type": "integer"}, "additionalItems": False}', group="arr")
    hs += _triple("c01_arr_addl_no_items", f"v: {LV}", LPRE, '{"additionalItems": False}', group="arr", tier=T, twins="acc")
    hs += _triple("c01_arr_minmax", f"a: int, b: int, v: {LV}", LPRE + ["a >= 0", "b >= 0"], '{"minItems": a, "maxItems": b}', group="arr")
    hs += _triple("c01_arr_minmax_typed", f"a: int, b: int, v: {LV}", LPRE + ["a >= 0", "b >= 0"],
                  '{"type": "array", "minItems": a, "maxItems": b}', group="arr", tier=T)
    hs += _triple("c01_arr_unique", f"u: bool, v: {LV}", LPRE, '{"uniqueItems": u}', group="arr")
    hs += _triple("c01_arr_contains", f"m: int, v: {LV}", LPRE, '{"contains": {"minimum": m}}', group="arr")
    hs += _triple("c01_arr_contains_false", f"v: {LV}", LPRE, '{"contains": False}', group="arr", tier=T)
    hs += _triple("c01_arr_contains_true", f"v: {LV}", LPRE, '{"type": "array", "contains": True}', group="arr", tier=T)
    hs += _triple("c01_arr_strs", "n: int, v: List[str]", ["len(v) <= 2", "all(len(s) <= 2 for s in v)", "n >= 0"],
                  '{"type": "array", "items": {"type": "string", "maxLength": n}, "uniqueItems": True}', group="arr", tier=T, timeout=90)
    NV = "List[List[Union[int, bool]]]"
    NPRE = ["len(v) <= 2", "all(len(x) <= 2 for x in v)"]
    hs += _triple("c01_arr_nested_unique", f"v: {NV}", NPRE, '{"uniqueItems": True}', group="lit", timeout=200)
    hs += _triple("c01_arr_nested_items", f"m: int, v: {NV}", NPRE,
                  '{"items": {"type": "array", "items": {"type": "integer", "minimum": m}, "maxItems": 1}}', group="arr", tier=T, timeout=60)
    FV = "List[List[Union[int, float]]]"
    hs += _triple("c01_arr_nested_unique_float", f"v: {FV}", NPRE + ["finite_json(v)"], '{"uniqueItems": True}', group="lit", timeout=200,
                  covers="uniqueItems on nested arrays whose members may be int or float (1 == 1.0 in JSON)")
    hs += _triple("c01_arr_unique_mixed_float", "v: List[Union[int, float, List[Union[int, float]]]]", ["len(v) <= 3", "all((not isinstance(x, list)) or len(x) <= 1 for x in v)", "finite_json(v)"],
                  '{"uniqueItems": True}', group="lit", timeout=300, tier=T)
    hs += _triple("c01_arr_unique_dict_float", "v: List[Dict[str, Union[int, float]]]", ["len(v) <= 2", "all(len(d) <= 1 and all(k in ('a', 'b') for k in d) for d in v)", "finite_json(v)"],
                  '{"uniqueItems": True}', group="lit", timeout=300)
    hs += _triple("c01_lit_const_float", "c: int, v: Union[int, float, List[Union[int, float]]]", ["not isinstance(v, list) or len(v) <= 2", "finite_json(v)"],
                  '{"enum": [c, [c], [c, 1.0]]}', group="lit", timeout=200)
    hs += _triple("c01_lit_const_list", f"c: Union[int, bool], v: Union[List[Union[int, bool]], int]", LPRE, '{"const": [c]}', group="lit")
    hs += _triple("c01_lit_enum_list", f"c: Union[int, bool], d: Union[int, bool], v: Union[List[Union[int, bool]], int, bool]", LPRE,
                  '{"enum": [[c], d, [d, 0]]}', group="lit", tier=T)
    hs += _triple("c01_lit_const_nested", f"c: Union[int, bool], v: {NV}", NPRE, '{"const": [[c], []]}', group="lit", tier=T, timeout=150)
    hs += _triple("c01_lit_const_dict", "c: Union[int, bool], v: Dict[str, Union[int, bool]]", ["len(v) <= 2", "all(k in ('a', 'b') for k in v)"],
                  '{"const": {"a": c}}', group="lit", tier=T, timeout=60)

    # ------------------------------------------------------------ obj family
    DV = "Dict[str, int]"
    for typed in (False, True):
        tn = "typed" if typed else "any"
        t = '"type": "object", "title": "T", ' if typed else ""
        tier2 = T if typed else Q
        hs += _triple(f"c01_obj_props_{tn}", f"mn: int, v: {DV}", DPRE,
                      f'{{{t}"properties": {{"a": {{"minimum": mn}}, "a b": {{"maximum": mn}}, "class": {{"multipleOf": 2}}}}}}', group="obj", timeout=60)
        for rq in ('["a"]', '["a", "b"]', '["a b", "class"]'):
            rn = rq.replace('"', "").replace("[", "").replace("]", "").replace(", ", "_").replace(" ", "")
            # typed object + required name with no declared property + additionalProperties closed/schema = known finding
            for an, addl in (("absent", None), ("false", "False"), ("schema", '{"minimum": k}')):
                a = "" if addl is None else f', "additionalProperties": {addl}'
                excl = []
                if typed and an != "absent":
                    undeclared = [x for x in eval(rq) if x not in ("a", "a b")]
                    if undeclared:
                        excl = ctx.excl("C01-required-synthetic", "not any(x in v for x in %r)" % (tuple(undeclared),))
                hs += _triple(f"c01_obj_req_{rn}_addl_{an}_{tn}", f"mn: int, k: int, v: {DV}", DPRE + excl,
                              f'{{{t}"properties": {{"a": {{"minimum": mn}}, "a b": True}}, "required": {rq}{a}}}',
                              group="obj", timeout=60, tier=tier2 if rq != '["a"]' else Q, twin_tier=T,
                              twins=("both" if (rq == '["a"]' or an == "absent") else "rej"))
        hs += _triple(f"c01_obj_pattern_{tn}", f"mn: int, n: int, k: int, v: {DV}", DPRE,
                      f'{{{t}"properties": {{"a": {{"minimum": mn}}}}, "patternProperties": {{"^a": {{"maximum": n}}, "b$": {{"multipleOf": 2}}}}, "additionalProperties": {{"minimum": k}}}}',
                      group="obj", timeout=90)
        hs += _triple(f"c01_obj_pattern_closed_{tn}", f"n: int, v: {DV}", DPRE,
                      f'{{{t}"patternProperties": {{"^a": {{"maximum": n}}}}, "additionalProperties": False}}', group="obj", timeout=60, tier=tier2)
        hs += _triple(f"c01_obj_minmax_{tn}", f"a: int, b: int, v: {DV}", DPRE + ["a >= 0", "b >= 0"],
                      f'{{{t}"minProperties": a, "maxProperties": b}}', group="obj", timeout=60, tier=tier2)
        for pn, names in (("maxlen", '{"maxLength": n}'), ("pattern", '{"pattern": "^a"}'), ("false", "False")):
            hs += _triple(f"c01_obj_names_{pn}_{tn}", f"n: int, v: {DV}", DPRE + ["n >= 0"], f'{{{t}"propertyNames": {names}}}',
                          group="obj", timeout=60, tier=Q if (pn == "maxlen" and not typed) else T)
        for dn, dep in (("list", '["b"]'), ("schema", '{"required": ["b"], "properties": {"b": {"minimum": mn}}}'), ("false", "False"), ("true", "True")):
            hs += _triple(f"c01_obj_dep_{dn}_{tn}", f"mn: int, v: {DV}", DPRE, f'{{{t}"dependencies": {{"a": {dep}}}}}', group="obj",
                          timeout=60, tier=Q if (dn in ("list", "schema") and not typed) else T, twins=("acc" if dn == "true" else "both"))
    # required property with a default may be omitted (documented deviation) - typed objects
    hs += _triple("c01_obj_required_default_typed", f"mn: int, v: {DV}", DPRE,
                  '{"type": "object", "title": "T", "properties": {"a": {"type": "integer", "minimum": mn, "default": 7}, "b": {"type": "integer"}}, "required": ["a", "b"]}',
                  group="obj", timeout=60)
    # non-dict values against object keywords; richer member types
    hs += _triple("c01_obj_nondict", f"v: Union[int, str, None, List[int], Dict[str, int]]",
                  ["not isinstance(v, str) or len(v) <= 2", "not isinstance(v, list) or len(v) <= 2", "not isinstance(v, dict) or (len(v) <= 1 and all(k in ('a', 'b') for k in v))"],
                  '{"required": ["a"], "minProperties": 1, "properties": {"a": {"minimum": 0}}, "additionalProperties": False}', group="obj", timeout=60)
    hs += _triple("c01_obj_typed_nondict", f"v: Union[int, str, None, List[int], Dict[str, int]]",
                  ["not isinstance(v, str) or len(v) <= 2", "not isinstance(v, list) or len(v) <= 2", "not isinstance(v, dict) or (len(v) <= 1 and all(k in ('a', 'b') for k in v))"],
                  '{"type": "object", "title": "T", "properties": {"a": {"minimum": 0}}}', group="obj", timeout=60, tier=T)
    hs += _triple("c01_obj_mixed_members", f"mn: int, n: int, v: Dict[str, Union[int, str, bool]]",
                  DPRE + ["all((not isinstance(x, str)) or len(x) <= 2 for x in v.values())", "n >= 0"],
                  '{"properties": {"a": {"type": "integer", "minimum": mn}, "a b": {"type": "string", "maxLength": n}}, "patternProperties": {"b$": {"type": ["boolean", "string"]}}, "required": ["a"]}',
                  group="obj", tier=T, timeout=240)
    hs += _triple("c01_obj_nested", f"mn: int, v: Dict[str, Dict[str, int]]",
                  ["len(v) <= 1", "all(k in ('a', 'b') for k in v)", "all(len(d) <= 1 and all(k in ('a', 'x') for k in d) for d in v.values())"],
                  '{"properties": {"a": {"type": "object", "title": "Inner", "properties": {"x": {"minimum": mn}}, "required": ["x"], "additionalProperties": False}}}',
                  group="obj", tier=T, timeout=120)

    # second-round rows (after the seeded misses): keyword x "wrong" value type, empty lists, nested containers
    hs += _triple("c01_obj_names_int_schema", f"v: {DV}", DPRE, '{"propertyNames": {"type": "integer"}}', group="obj", timeout=60, tier=T)
    hs += _triple("c01_obj_empty_lists", f"v: {DV}", DPRE, '{"required": [], "dependencies": {"a": [], "b": {}}, "properties": {}, "patternProperties": {}}', group="obj", timeout=60, twins=False)
    hs += _triple("c01_obj_array_members", "m: int, v: Dict[str, List[int]]", ["len(v) <= 2", "all(k in ('a', 'b') for k in v)", "all(len(x) <= 2 for x in v.values())"],
                  '{"properties": {"a": {"items": {"minimum": m}, "maxItems": 1}}, "additionalProperties": {"type": "array", "uniqueItems": True}}', group="obj", timeout=120)
    hs += _triple("c01_arr_combo", f"m: int, n: int, v: {LV}", LPRE + ["n >= 0"], '{"items": {"type": ["integer", "boolean"]}, "contains": {"const": m}, "uniqueItems": True, "minItems": n, "maxItems": 2}', group="arr", timeout=120)
    hs += _triple("c01_arr_of_dicts", "m: int, v: List[Dict[str, int]]", ["len(v) <= 2", "all(len(d) <= 2 and all(k in ('a', 'b') for k in d) for d in v)"],
                  '{"items": {"required": ["a"], "properties": {"a": {"maximum": m}}}, "contains": {"required": ["b"]}}', group="arr", timeout=120, tier=T)
    hs += _triple("c01_oneof_overlapping_objects", f"m: int, v: {DV}", DPRE,
                  '{"oneOf": [{"required": ["a"]}, {"properties": {"a": {"minimum": m}}}, {"maxProperties": 1}]}', group="comp", timeout=120)
    hs += _triple("c01_const_none_and_type_number_bool", f"v: {SCALAR}", SCALAR_PRE, '{"anyOf": [{"const": None}, {"type": "number"}]}', group="lit", timeout=60)

    # third-round rows: schema-form dependencies next to composition / type lists; verdicts must not depend on earlier schemas
    for sn, sib in (("anyof", '"anyOf": [{"minProperties": 0}, {"type": "null"}]'), ("not", '"not": {"required": ["zz"]}'), ("allof", '"allOf": [True]'),
                    ("typelist", '"type": ["object", "null"], "title": "TD"'), ("oneof_typed", '"type": "object", "title": "TD", "oneOf": [{"maxProperties": 5}]')):
        hs += _triple(f"c01_obj_dep_schema_next_to_{sn}", f"mn: int, v: {DV}", DPRE,
                      f'{{"dependencies": {{"a": {{"required": ["b"], "properties": {{"b": {{"minimum": mn}}}}}}, "b": False, "ab": ["a"]}}, {sib}}}', group="obj", timeout=120,
                      tier=Q if sn in ("anyof", "typelist") else T, twins=(sn == "anyof"))
    hs.append(mk("c01_lit_const_then_const", f"c1: Union[int, bool], c2: Union[int, bool], v: Union[int, bool]", [], """
S1 = {"const": c1, "items": {"const": c2}, "multipleOf": 2}
S2 = {"const": c2, "items": {"const": c1}, "enum": [c1, c2]}
a = accepts(parse_s(S1), v) == oracle(S1, v)
b = accepts(parse_s(S2), v) == oracle(S2, v)
c = accepts(parse_s(S1), [v]) == oracle(S1, [v])
return a and b and c
""", timeout=120, group="lit", covers="two schemas with equal-but-differently-typed literals (1 / true) validated one after the other in one process: each verdict still matches Draft 6"))
    hs.append(mk("c01_lit_const_then_const__lookalikes", f"c1: Union[int, bool], c2: Union[int, bool], v: Union[int, bool]", [],
                 "return not (type(c1) is int and c1 == 1 and c2 is True and type(v) is int and v == 1)", kind="witness", timeout=30, group="lit",
                 covers="witness (1, True, 1): cross-evaluated concretely on the claim (CrossHair bypasses functools.lru_cache, a plain interpreter does not)"))

    # ------------------------------------------------------------ comp family
    def comp(name, schema, tier, timeout=40, twins=False):
        return _triple(name, f"m: int, n: int, v: {COMPV}", COMPV_PRE, schema, group="comp", tier=tier, timeout=timeout, twins=twins)

    quick_pairs = {("min", "int"), ("str", "maxlen"), ("req", "min"), ("T", "min"), ("F", "int"), ("int", "int"), ("int", "maxlen")}
    for kw in ("anyOf", "oneOf", "allOf"):
        for l1, l2 in itertools.product(LEAVES, LEAVES):
            tier = Q if (l1, l2) in quick_pairs else T
            hs += comp(f"c01_comp_{kw}_{l1}_{l2}", f'{{"{kw}": [{LEAVES[l1]}, {LEAVES[l2]}]}}', tier, twins=(l1, l2) == ("int", "maxlen"))
        hs += comp(f"c01_comp_{kw}_single", f'{{"{kw}": [{LEAVES["min"]}]}}', T)
        hs += comp(f"c01_comp_{kw}_three", f'{{"{kw}": [{LEAVES["min"]}, {LEAVES["int"]}, {LEAVES["maxlen"]}]}}', Q, timeout=60)
    for l1 in LEAVES:
        hs += comp(f"c01_comp_not_{l1}", f'{{"not": {LEAVES[l1]}}}', Q if l1 in ("min", "req", "F") else T, twins=l1 == "min")
    # sibling keywords next to composition
    sibs = {
        "type": '"type": "integer"',
        "min": '"minimum": n',
        "props": '"properties": {"a": {"maximum": n}}',
        "typelist": '"type": ["integer", "string"]',
        "default": '"default": 3',
        "const": '"const": n',
    }
    for kw in ("anyOf", "oneOf", "allOf", "not"):
        for sn, sib in sibs.items():
            inner = f'[{LEAVES["min"]}, {LEAVES["str"]}]' if kw != "not" else LEAVES["min"]
            hs += comp(f"c01_comp_{kw}_sib_{sn}", f'{{{sib}, "{kw}": {inner}}}', Q if sn in ("type", "props", "min") else T, timeout=60, twins=(sn == "min"))
    # two composition keywords at once
    kws = ("anyOf", "oneOf", "allOf", "not")
    two_leaves = [("min", "int"), ("str", "maxlen"), ("req", "T"), ("int", "F")]
    for k1, k2 in itertools.combinations(kws, 2):
        for i, (l1, l2) in enumerate(two_leaves):
            v1 = f"[{LEAVES[l1]}, {LEAVES[l2]}]" if k1 != "not" else LEAVES[l1]
            v2 = f"[{LEAVES[l2]}, {LEAVES['min']}]" if k2 != "not" else LEAVES[l2]
            hs += comp(f"c01_comp2_{k1}_{k2}_{i}", f'{{"{k1}": {v1}, "{k2}": {v2}}}', Q if i == 0 else T, timeout=60)
    hs += comp("c01_comp_all_four", f'{{"type": ["integer", "string", "null"], "anyOf": [{LEAVES["min"]}, {LEAVES["str"]}], "oneOf": [{LEAVES["int"]}, {LEAVES["maxlen"]}], "allOf": [{{"maximum": n}}], "not": {{"const": 5}}}}', Q, timeout=90, twins=True)
    # depth 2
    for k1 in kws:
        for k2 in kws:
            inner = f'{{"{k2}": [{LEAVES["min"]}, {LEAVES["str"]}]}}' if k2 != "not" else f'{{"not": {LEAVES["min"]}}}'
            outer = f'[{inner}, {LEAVES["maxlen"]}]' if k1 != "not" else inner
            hs += comp(f"c01_comp_nest_{k1}_{k2}", f'{{"{k1}": {outer}}}', Q if (k1, k2) in (("not", "anyOf"), ("oneOf", "oneOf"), ("allOf", "not")) else T, timeout=60)
    # composition over object branches / arrays
    hs += _triple("c01_comp_obj_branches", f"mn: int, v: {DV}", DPRE,
                  '{"oneOf": [{"type": "object", "title": "A", "properties": {"a": {"minimum": mn}}, "required": ["a"]}, {"type": "object", "title": "B", "required": ["b"]}]}',
                  group="comp", timeout=90)
    hs += _triple("c01_comp_in_items", f"m: int, v: Union[List[Union[int, bool]], int]", LPRE,
                  '{"items": {"anyOf": [{"type": "boolean"}, {"minimum": m}]}}', group="comp", tier=T, timeout=60)

    # ------------------------------------------------------------ types family
    TYPES = ["null", "boolean", "integer", "number", "string", "array", "object"]
    TV = "Union[int, bool, str, None, List[int], Dict[str, int]]"
    TPRE = ["not isinstance(v, str) or len(v) <= 2", "not isinstance(v, list) or len(v) <= 2",
            "not isinstance(v, dict) or (len(v) <= 1 and all(k in ('a', 'b') for k in v))", "n >= 0"]
    qsel = {("integer",), ("number",), ("object",), ("integer", "string"), ("null", "boolean"), ("array", "object"), ("boolean", "number")}
    for r in (1, 2):
        for sub in itertools.combinations(TYPES, r):
            nm = "_".join(sub)
            hs += _triple(f"c01_types_{nm}", f"m: int, n: int, v: {TV}", TPRE,
                          f'{{"type": {list(sub)!r}, "title": "T", "minimum": m, "maxLength": n, "maxItems": n, "maxProperties": n}}',
                          group="types", tier=Q if sub in qsel else T, timeout=60, twins=sub in (("integer", "string"), ("object",)))
    for t in TYPES:
        hs += _triple(f"c01_type_single_{t}", f"v: {TV}", TPRE[:-1], f'{{"type": "{t}", "title": "T"}}', group="types", tier=T, twins=False)
    hs += _triple("c01_types_three", f"m: int, n: int, v: {TV}", TPRE, '{"type": ["integer", "string", "null"], "minimum": m, "maxLength": n}', group="types", tier=T, timeout=60)
    hs += _triple("c01_bool_schemas", f"b: bool, v: {TV}", TPRE[:-1], "b", group="types", twins=True)
    hs += _pairwise()
    return hs


# ---------------------------------------------------------------- systematic pairwise keyword interaction (thorough)
# fragment name -> (keyword, value expression with holes {m} {n} {b}, value kinds it looks at)
FRAGS = {
    "minimum": ("minimum", "{m}", "N"), "maximum": ("maximum", "{m}", "N"),
    "exclusiveMinimum": ("exclusiveMinimum", "{m}", "N"), "exclusiveMaximum": ("exclusiveMaximum", "{m}", "N"),
    "multipleOf": ("multipleOf", "{n} + 1", "N"),
    "minLength": ("minLength", "{n}", "S"), "maxLength": ("maxLength", "{n}", "S"), "pattern": ("pattern", "'^a'", "S"),
    "items": ("items", "{{'minimum': {m}}}", "A"), "items_tuple": ("items", "[{{'type': 'integer'}}, {{'maximum': {m}}}]", "A"),
    "items_false": ("items", "False", "A"),
    "additionalItems": ("additionalItems", "{b}", "A"), "minItems": ("minItems", "{n}", "A"), "maxItems": ("maxItems", "{n}", "A"),
    "uniqueItems": ("uniqueItems", "{b}", "A"), "contains": ("contains", "{{'const': {m}}}", "A"),
    "properties": ("properties", "{{'a': {{'minimum': {m}}}, 'a b': {b}}}", "O"),
    "patternProperties": ("patternProperties", "{{'^a': {{'maximum': {m}}}}}", "O"),
    "additionalProperties": ("additionalProperties", "{b}", "O"),
    "additionalProperties_schema": ("additionalProperties", "{{'multipleOf': 2}}", "O"),
    "required": ("required", "['a']", "O"), "required_two": ("required", "['b', 'a b']", "O"),
    "minProperties": ("minProperties", "{n}", "O"), "maxProperties": ("maxProperties", "{n}", "O"),
    "propertyNames": ("propertyNames", "{{'maxLength': {n}}}", "O"),
    "dependencies": ("dependencies", "{{'a': ['b'], 'b': {{'minProperties': {n}}}}}", "O"),
    "const": ("const", "{m}", "NX"), "enum": ("enum", "[{m}, 'a', None, [], {{}}]", "NSX"),
    "type_integer": ("type", "'integer'", "N"), "type_number": ("type", "'number'", "N"), "type_string": ("type", "'string'", "S"),
    "type_array": ("type", "'array'", "A"), "type_object": ("type", "'object'", "O"), "type_list": ("type", "['integer', 'null', 'array']", "NXA"),
    "anyOf": ("anyOf", "[{{'minimum': {m}}}, {{'type': 'string'}}]", "NS"), "oneOf": ("oneOf", "[{{'maximum': {m}}}, {{'type': 'integer'}}, False]", "N"),
    "allOf": ("allOf", "[{{'maximum': {m}}}, True]", "N"), "not": ("not", "{{'const': {m}}}", "NX"),
    "default": ("default", "3", "X"),
}
KIND_T = {"N": "int, bool", "S": "str", "A": "List[Union[int, bool]]", "O": "Dict[str, int]", "X": "None"}


def _pairwise() -> List[H]:
    """Every pair of keyword fragments with different keywords: one schema holding both, holes symbolic, value drawn from
    the kinds either keyword looks at (plus int / None foils).  The hand-written rows above cover chosen interactions in
    depth; this table covers ALL two-keyword interactions at a fixed depth."""
    out: List[H] = []
    names = list(FRAGS)
    for i, f1 in enumerate(names):
        for f2 in names[i + 1:]:
            k1, e1, kd1 = FRAGS[f1]
            k2, e2_, kd2 = FRAGS[f2]
            if k1 == k2:
                continue
            kinds = [k for k in "NSAOX" if k in kd1 + kd2 + "NX"]
            vt = "Union[" + ", ".join(KIND_T[k] for k in kinds) + "]"
            pre = ["n1 >= 0", "n2 >= 0"]
            if "S" in kinds:
                pre.append("not isinstance(v, str) or len(v) <= 2")
            if "A" in kinds:
                pre.append("not isinstance(v, list) or len(v) <= 3")
            if "O" in kinds:
                pre.append("not isinstance(v, dict) or (len(v) <= 2 and all(k in ('a', 'b', 'a b', 'c') for k in v))")
            title = "'title': 'T', " if "type_object" in (f1, f2) else ""
            schema = "{%s%r: %s, %r: %s}" % (title, k1, e1.format(m="m1", n="n1", b="b1"), k2, e2_.format(m="m2", n="n2", b="b2"))
            out += _triple(f"c01_pair_{f1}__{f2}", f"m1: int, n1: int, b1: bool, m2: int, n2: int, b2: bool, v: {vt}", pre, schema,
                           tier="thorough", timeout=30, group="pair", twins=False, expect="any",
                           covers=f"two-keyword interaction {k1} x {k2}")
    return out


def extra_checks(ctx):
    """E2 sub-claim: float value / float multipleOf on the quarter grid v = k1/4, m = k2/4: the AST->SMT encoding of the
    CURRENT MultipleOf._validate accepts iff k1 mod k2 == 0 (z3, cvc5 as second opinion).  Thorough tier only."""
    import json
    import os

    out = {"obligations": 0, "discharged": 0, "evaluations": 0, "solver_s": 0.0, "violations": [], "harness_errors": [], "lines": [], "report": {}}
    if ctx.tier != "thorough":
        return out
    from vf import e2

    try:
        ncase, bad = e2.validate_translator()
        if bad:
            out["harness_errors"].append(f"E2 translator disagrees with the real function on {bad[:3]}")
            return out
        res = e2.grid_obligations(9, 240)
    except e2.Unsupported as exc:
        out["harness_errors"].append(f"E2 encoding not applicable to current source of MultipleOf._validate: {exc}")
        return out
    out["report"]["quarter_grid"] = res
    for r in res:
        out["obligations"] += 1
        out["evaluations"] += 1
        out["solver_s"] += r["solver_s"] + r.get("cvc5_s", 0)
        if r["result"] == "unsat":
            out["discharged"] += 1
        elif r["result"] == "sat":
            exp = r.get("expected_accept")
            got = r.get("replay")
            wrong = (got == "return") != bool(exp) or got not in ("return", "raise:ValidationError")
            if wrong:
                d = "/verif/replays/C01"
                os.makedirs(d, exist_ok=True)
                path = os.path.join(d, "e2-grid-%s.json" % abs(hash(r["query"])))
                call = "e2_grid_replay(%s, %s, %r)" % (r["counterexample"]["value"], r["counterexample"]["multipleOf"], bool(exp))
                with open(path, "w") as fh:
                    json.dump({"property": "C01", "harness": "e2", "call": call, "detail": r}, fh, indent=1)
                out["violations"].append(("e2:" + r["query"], path, f"{call} -> {got}"))
            else:
                out["harness_errors"].append(f"E2 grid counterexample does not reproduce: {r}")
        else:
            out["lines"].append(f"  inconclusive (E2): {r['query']} -> {r['result']}")
    return out


def e2_grid_replay(v, m, expected_accept):
    from vf.e2 import concrete_outcome

    return (concrete_outcome(v, m) == "return") == expected_accept


# ---------------------------------------------------------------- known findings (concrete demos)
def _demo_required_synthetic():
    from vf.common import accepts, parse_s

    S = {"type": "object", "title": "T", "required": ["a"], "additionalProperties": False}
    return accepts(parse_s(S), {"a": 1})  # Draft 6: 'a' is an additional property -> invalid


def _demo_nested_bool():
    from vf.common import accepts, parse_s

    return (
        accepts(parse_s({"const": [True]}), [1])
        or accepts(parse_s({"enum": [[0]]}), [False])
        or not accepts(parse_s({"uniqueItems": True}), [[1], [True]])
    )


DEMOS = {"C01-required-synthetic": _demo_required_synthetic, "C01-nested-bool": _demo_nested_bool}
