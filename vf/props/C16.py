"""C16 - format checking consults exactly the registered checker (E1)."""
from typing import List

from vf.harness import H, mk

EXPLANATION = (
    "Registry semantics: a history of up to 3 registrations (name index, behaviour index, threshold k - all symbolic) is applied to "
    "the process-wide format_checker (saved/restored per path), then String(format=f) / Element(format=f) validates a symbolic value "
    "of any JSON type; the oracle is a dict model with last-write-wins: rejected-for-format <=> value is a str, f is registered and "
    "the registered checker returns false; unregistered => accepted with exactly one RuntimeWarning; non-strings are never rejected "
    "on account of a format. Built-ins: canonical UUIDs with symbolic hex digits of either case at symbolic positions; RFC 3339 "
    "timestamps assembled from integer fields with ONE field symbolic at a time (dateutil runs concretely on the realised string: "
    "solver-driven enumeration along single axes, nothing is claimed about field combinations)."
)
ASSUMPTIONS = ["dateutil and uuid execute concretely on realised strings", "RFC 3339 grammar: date-fullyear 0000-9999, 'T'/'t', 'Z'/'z' or +-hh:mm, optional 1-9 digit fraction, second 00-60 (leap second only at 23:59:60Z-equivalents)"]
FUNCTIONS = ["statham.schema.validation.format:_FormatString.__call__", "statham.schema.validation.format:_FormatString.register",
             "statham.schema.validation.string:Format._validate", "statham.schema.validation.format:_is_uuid", "statham.schema.validation.format:_is_date_time"]

POOL = ("uuid", "date-time", "x", "y", "date_time", "x-y", "x_y")


class fresh_registry:
    """save / restore the WHOLE state of the process-wide checker object (every attribute, copied one
    level deep), so that no path leaks registrations - or any other bookkeeping - into the next one"""

    def __enter__(self):
        import copy
        from statham.schema.validation.format import format_checker

        self.fc = format_checker
        self.saved = {k: copy.copy(val) for k, val in vars(format_checker).items()}
        return format_checker

    def __exit__(self, *a):
        for k in list(vars(self.fc)):
            if k not in self.saved:
                delattr(self.fc, k)
        for k, val in self.saved.items():
            setattr(self.fc, k, val)
        return False


def registry_ok(names, behs, ks, fi, typed, v):
    import warnings
    from vf.common import String, Element, accepts

    with fresh_registry() as fc:
        model = {}
        f = POOL[fi]
        # one element instance that lives through all registrations (a validator / checker remembered on the instance
        # would show here), next to the fresh one built by every _check_once
        keep = String(format=f) if typed else Element(format=f)
        # a first validation BEFORE any registration (the name may be unknown at that point)
        if not _check_once(f, typed, v, model, keep):
            return False
        for i in range(len(names)):
            name = POOL[names[i]]
            beh, k = behs[i], ks[i]
            if beh == 0:
                fn = lambda s: True
            elif beh == 1:
                fn = lambda s: False
            else:
                fn = lambda s, k=k: len(s) > k
            fc.register(name)(fn)
            model[name] = (beh, k)
            # ... and after every registration
            if not _check_once(f, typed, v, model, keep):
                return False
        return True


def _check_once(f, typed, v, model, keep=None):
    if keep is not None and not _check_once(f, typed, v, model, None) :
        return False
    import warnings
    from vf.common import String, Element, accepts

    el = keep if keep is not None else (String(format=f) if typed else Element(format=f))
    if isinstance(v, str) and f not in model and f in ("uuid", "date-time"):
        return True  # the built-in checker decides: subject of the built-in harnesses (uuid.py / dateutil on a symbolic str do not exhaust)
    with warnings.catch_warnings(record=True) as w:
        warnings.simplefilter("always")
        acc = accepts(el, v)
    nwarn = len([x for x in w if issubclass(x.category, RuntimeWarning)])
    if not isinstance(v, str):
        if typed:
            return (not acc) and nwarn == 0
        return acc and nwarn == 0
    if f not in model:
        return acc and nwarn == 1
    beh, k = model[f]
    expected = True if beh == 0 else (False if beh == 1 else len(v) > k)
    return acc == expected and nwarn == 0


def symbolic_name_ok(c, beh, v):
    """a format name that is an arbitrary 1-char string"""
    import warnings
    from vf.common import String, accepts

    with fresh_registry() as fc:
        with warnings.catch_warnings(record=True) as w:
            warnings.simplefilter("always")
            a0 = accepts(String(format=c), v)
        n0 = len(w)
        fc.register(c)((lambda s: True) if beh else (lambda s: False))
        with warnings.catch_warnings(record=True) as w2:
            warnings.simplefilter("always")
            a1 = accepts(String(format=c), v)
        return a0 and n0 == 1 and a1 == bool(beh) and len(w2) == 0


HEX = "0123456789abcdefABCDEF"


def uuid_ok(p1, p2, d1, d2, braces):
    from vf.common import String, accepts

    base = list("123e4567-e89b-12d3-a456-426614174000")
    hexpos = [i for i, ch in enumerate(base) if ch != "-"]
    base[hexpos[p1]] = HEX[d1]
    base[hexpos[p2]] = HEX[d2]
    s = "".join(base)
    return accepts(String(format="uuid"), s)


def ts(year=2020, month=6, day=15, hour=12, minute=30, second=45, frac="", t="T", off="Z"):
    from vf.common import concretize_int as ci, concretize_digits

    # integer -> text conversion happens on concretised fields (dateutil needs a concrete string anyway);
    # the solver enumerates the field's range by equality forks
    year, month, day = concretize_digits(year, 4), ci(month, 1, 12), ci(day, 1, 31)
    hour, minute, second = ci(hour, 0, 23), ci(minute, 0, 59), ci(second, 0, 60)
    return "%04d-%02d-%02d%s%02d:%02d:%02d%s%s" % (year, month, day, t, hour, minute, second, frac, off)


def datetime_ok(s):
    from vf.common import String, accepts

    return accepts(String(format="date-time"), s)


def days_in(month, year):
    if month == 2:
        leap = year % 4 == 0 and (year % 100 != 0 or year % 400 == 0)
        return 29 if leap else 28
    return 30 if month in (4, 6, 9, 11) else 31


def harnesses(ctx) -> List[H]:
    hs: List[H] = []
    VAL = "Union[str, int, bool, None, List[int]]"
    VPRE = ["not isinstance(v, str) or len(v) <= 3", "not isinstance(v, list) or len(v) <= 2"]
    for K, tier, to in ((1, "quick", 200), (2, "thorough", 900)):
        for fi in range(7):
            for typed in (True, False):
                if fi >= 4 and not typed:
                    continue
                pre = [f"len(names) == {K}", f"len(behs) == {K}", f"len(ks) == {K}", "all(0 <= n < 7 for n in names)", "all(0 <= b < 3 for b in behs)"] + VPRE
                hs.append(mk(f"c16_registry_k{K}_f{fi}_{'string' if typed else 'element'}", f"names: List[int], behs: List[int], ks: List[int], v: {VAL}", pre,
                             f"return registry_ok(names, behs, ks, {fi}, {typed}, v)", tier=tier, timeout=to, group="registry",
                             covers=f"{K} registrations over names {POOL} x behaviours (True, False, len>k), then {'String' if typed else 'Element'}(format={POOL[fi]!r}) on any JSON value"))
    hs.append(mk("c16_registry_k0", f"fi: int, typed: bool, v: {VAL}", ["0 <= fi < 7"] + VPRE, "return registry_ok([], [], [], fi, typed, v)", timeout=300, group="registry",
                 covers="no registration: unregistered names warn-and-accept"))
    hs.append(mk("c16_reregister_same_element", f"fi: int, typed: bool, b1: int, b2: int, k1: int, k2: int, v: {VAL}", ["0 <= fi < 7", "0 <= b1 < 3", "0 <= b2 < 3"] + VPRE,
                 "return registry_ok([fi, fi], [b1, b2], [k1, k2], fi, typed, v)", timeout=300, group="registry",
                 covers="the SAME name registered twice with different behaviours; one element instance validated before, between and after: the latest registration decides"))
    hs.append(mk("c16_symbolic_name", "c: str, beh: bool, v: str", ["len(c) == 1", "len(v) <= 2"], "return symbolic_name_ok(c, beh, v)", timeout=200, group="registry", expect="unknown", tier="thorough",
                 covers="format name = any 1-char string (dict lookup realises the name)"))
    hs.append(mk("c16__reject", f"names: List[int], behs: List[int], ks: List[int], fi: int, v: str", ["len(names) == 1", "len(behs) == 1", "len(ks) == 1", "0 <= names[0] < 7", "0 <= behs[0] < 3", "0 <= fi < 7", "len(v) <= 3"],
                 "from vf.common import String, accepts\nwith fresh_registry() as fc:\n    fc.register(POOL[names[0]])(lambda s, k=ks[0]: len(s) > k)\n    return accepts(String(format=POOL[fi]), v) or POOL[fi] != POOL[names[0]]", kind="witness", timeout=60, group="registry"))
    # built-in uuid
    hs.append(mk("c16_uuid_canonical", "p1: int, p2: int, d1: int, d2: int", ["0 <= p1 < 32", "0 <= p2 < 32", "0 <= d1 < 22", "0 <= d2 < 22"],
                 "return uuid_ok(p1, p2, d1, d2, False)", timeout=600, group="uuid", tier="thorough",
                 covers="canonical UUID with two symbolic positions holding symbolic hex digits of either case"))
    hs.append(mk("c16_uuid_canonical_one", "p1: int, d1: int", ["0 <= p1 < 32", "0 <= d1 < 22"],
                 "return uuid_ok(p1, p1, d1, d1, False)", timeout=300, group="uuid", covers="canonical UUID with one symbolic position / hex digit of either case"))
    # built-in date-time: one field at a time
    ex_leap = ctx.excl("C16-leap-second", "second <= 59")
    ex_y0 = ctx.excl("C16-year-zero", "year >= 1")
    fields = [
        ("year_modern", "year: int", ["1900 <= year <= 2100"], "ts(year=year)", "quick"),
        ("month", "month: int", ["1 <= month <= 12"], "ts(month=month, day=28)", "quick"),
        ("day", "month: int, day: int, leap: bool", ["1 <= month <= 12", "1 <= day <= days_in(month, 2024 if leap else 2023)"], "ts(year=(2024 if leap else 2023), month=month, day=day)", "quick"),
        ("hour", "hour: int", ["0 <= hour <= 23"], "ts(hour=hour)", "quick"),
        ("minute", "minute: int", ["0 <= minute <= 59"], "ts(minute=minute)", "quick"),
        ("second", "second: int", ["0 <= second <= 60"] + ex_leap, "ts(hour=23, minute=59, second=second)", "quick"),
        ("fraction", "n: int, d: int", ["1 <= n <= 9", "0 <= d <= 9"], "ts(frac='.' + str(concretize_int(d, 0, 9)) * concretize_int(n, 1, 9))", "quick"),
        ("fraction_with_offset", "n: int, d: int, sign: bool", ["1 <= n <= 12", "0 <= d <= 9"], "ts(frac='.' + str(concretize_int(d, 0, 9)) * concretize_int(n, 1, 12), off=('+05:30' if sign else '-07:00'))", "quick"),
        ("fraction_long_z", "n: int", ["10 <= n <= 20"], "ts(frac='.' + '123456789' * 3, off='Z')[:20 + concretize_int(n, 10, 20)] + 'Z'", "thorough"),
        ("offset_hours", "sign: bool, hh: int", ["0 <= hh <= 23"], "ts(off=('+' if sign else '-') + '%02d:00' % concretize_int(hh, 0, 23))", "quick"),
        ("offset_minutes", "sign: bool, mm: int", ["0 <= mm <= 59"], "ts(off=('+' if sign else '-') + '05:%02d' % concretize_int(mm, 0, 59))", "quick"),
        ("case", "lt: bool, lz: bool", [], "ts(t=('t' if lt else 'T'), off=('z' if lz else 'Z'))", "quick"),
    ]
    for q in range(4):
        lo, hi = q * 2500, q * 2500 + 2499
        fields.append((f"year_{lo}_{hi}", "year: int", [f"{lo} <= year <= {hi}"] + ex_y0, "ts(year=year)", "thorough"))
    for name, args, pre, expr, tier in fields:
        hs.append(mk(f"c16_datetime_{name}", args, pre, f"return datetime_ok({expr})", tier=tier, timeout=900 if tier == "thorough" else 300, group="date-time",
                     covers=f"RFC 3339 timestamp {expr} accepted"))
    return hs


def _demo_leap():
    return not datetime_ok("2016-12-31T23:59:60Z")


def _demo_year0():
    return not datetime_ok("0000-01-01T00:00:00Z")


DEMOS = {"C16-leap-second": _demo_leap, "C16-year-zero": _demo_year0}
