"""C08 - validation is pure and repeatable (E1: symbolic call histories, deep snapshots)."""
from typing import List

from vf.harness import H, mk

EXPLANATION = (
    "For each element template (parsed and DSL-built, holes symbolic) a history of k<=2 symbolic values (each validated twice) (accepted or rejected "
    "as the solver likes) is validated; before the first and after every call a deep structural snapshot of every attribute of "
    "every reachable Element/_Property/class (list and dict contents included), serialize_json, equality with a fresh build, the "
    "input value, and verdict/result repeatability are compared. Text observables (repr, serialize_python) are compared in the "
    "concrete-hole variants."
)
ASSUMPTIONS = ["snapshot() (vf/common.py) walks vars() of elements, class keyword attributes of ObjectMeta classes and all nested containers"]
FUNCTIONS = ["statham.schema.elements.base:Element.__call__", "statham.schema.validation.object:Required.from_element",
             "statham.schema.elements.properties:Properties.__init__", "statham.schema.property:_Property.bind"]


def pure_history(make, values, check_text=False):
    from vf.common import snapshot, serialize_json, serialize_python, jcopy, verdict, jeq, result_eq

    el = make()
    s0 = snapshot(el)
    j0 = serialize_json(el)
    t0 = (repr(el), serialize_python(el)) if check_text else None
    for v in values:
        c = jcopy(v)
        a1, r1 = verdict(el, v)
        if not jeq(v, c):
            return False
        if snapshot(el) != s0:
            return False
        a2, r2 = verdict(el, v)
        if a1 != a2:
            return False
        if a1 and not result_eq(r1, r2):
            return False
        if snapshot(el) != s0:
            return False
    fresh = make()
    if not (el == fresh):
        return False
    # an unchanged tree behaves like a fresh copy: the last value gets the verdict a never-used copy gives
    # (state hidden outside the public attributes - on classes, in caches - shows here)
    if values:
        v = values[-1]
        a_used, r_used = verdict(el, jcopy(v))
        a_new, r_new = verdict(fresh, jcopy(v))
        if a_used != a_new or (a_used and not result_eq(r_used, r_new)):
            return False
    if serialize_json(el) != j0:
        return False
    if check_text and (repr(el), serialize_python(el)) != t0:
        return False
    return True


def touched(make, v):
    """witness helper: the call went through (accepted) at least once."""
    from vf.common import accepts

    return accepts(make(), v)


DV = "Dict[str, int]"
DPRE1 = "len({0}) <= 2 and all(k in ('a', 'b', 'a b', 'ab') for k in {0})"
LV = "List[Union[int, bool]]"

# name -> (hole args, hole pre, make-expression, value type, per-value pre template)
TEMPLATES = {
    "untyped_required": ("mn: int", [], 'parse_s({"properties": {"a": {"minimum": mn}, "a b": {"type": "integer"}}, "required": ["a", "b"]})', DV, DPRE1),
    "typed_required": ("mn: int", [], 'parse_s({"type": "object", "title": "T", "properties": {"a": {"minimum": mn}, "a b": {"type": "integer", "default": 1}}, "required": ["a", "a b"], "additionalProperties": False})', DV, DPRE1),
    "dsl_class_required": ("mn: int", [], 'Object.inline("M", properties={"a": Property(Integer(minimum=mn), required=True), "b_": Property(Integer(), source="b")}, required=["b"])', DV, DPRE1),
    "dsl_element_required": ("mn: int", [], 'Element(properties={"a": Property(Integer(minimum=mn), required=True), "b_": Property(Element(), source="b")}, required=["ab"], additionalProperties=Integer(maximum=mn))', DV, DPRE1),
    "dsl_inherited": ("mn: int", [], '_child(mn)', DV, DPRE1),
    "declared_matches_pattern": ("mn: int", [], 'parse_s({"properties": {"a": {"minimum": mn}, "ab": {"type": "integer", "default": 1}}, "patternProperties": {"^a": {"maximum": mn}, "b$": {"multipleOf": 2}}, "required": ["ab"]})', DV, DPRE1),
    "declared_matches_pattern_typed": ("mn: int", [], 'parse_s({"type": "object", "title": "PM", "properties": {"a": {"minimum": mn}, "a b": {"type": "integer"}}, "patternProperties": {"^a": {"maximum": mn}}})', DV, DPRE1),
    "nested_bool_literals": ("m: int", [], 'parse_s({"anyOf": [{"const": {"flags": [True, m], "deep": {"x": [[False]]}}}, {"enum": [[[True]], {"k": {"j": False}}, m]}], "properties": {"a": {"const": [[True, 1]]}}})', "Union[int, Dict[str, int], List[List[Union[int, bool]]]]", "(not isinstance({0}, dict) or (len({0}) <= 1 and all(k in ('a', 'b') for k in {0}))) and (not isinstance({0}, list) or (len({0}) <= 1 and all(len(x) <= 2 for x in {0})))"),
    "unique_nested_data": ("m: int", [], 'parse_s({"uniqueItems": True, "items": {"enum": [[True], [False, m], [[True]], [m]]}})', "List[List[Union[int, bool]]]", "len({0}) <= 2 and all(len(x) <= 1 for x in {0})"),
    "declared_allof_matches_pattern": ("mn: int", [], 'parse_s({"properties": {"ab": {"allOf": [{"minimum": mn}, {"type": "integer"}]}, "a": {"anyOf": [{"maximum": mn}, {"type": "null"}]}}, "patternProperties": {"^a": {"multipleOf": 2}}})', DV, DPRE1),
    "multi_array_deps": ("mn: int", [], 'parse_s({"dependencies": {"a": ["b"], "b": ["a"], "ab": ["a", "b"], "a b": {"minProperties": mn % 3}}, "required": ["a"]})', DV, DPRE1),
    "multi_array_deps_typed": ("mn: int", [], 'Object.inline("Dp", properties={"a": Property(Integer(minimum=mn))}, dependencies={"a": ["b"], "b": ["a"], "ab": ["zz"]})', DV, DPRE1),
    "pattern_deps": ("mn: int", [], 'parse_s({"patternProperties": {"^a": {"maximum": mn}}, "dependencies": {"a": ["b"], "b": {"minProperties": 2}}, "propertyNames": {"maxLength": 2}})', DV, DPRE1),
    "tuple_items": ("m: int", [], 'parse_s({"type": "array", "items": [{"type": "integer"}, {"minimum": m}], "additionalItems": {"type": "boolean"}, "uniqueItems": True})', LV, "len({0}) <= 3"),
    "items_of_objects": ("m: int", [], 'Array(Object.inline("It", properties={"a": Property(Integer(maximum=m), required=True)}), minItems=1)', "List[Dict[str, int]]", "len({0}) <= 2 and all(len(d) <= 1 and all(k in ('a', 'b') for k in d) for d in {0})"),
    "composition": ("m: int", [], 'parse_s({"anyOf": [{"type": "object", "title": "A", "required": ["a"], "properties": {"a": {"minimum": m}}}, {"type": "integer"}], "not": {"const": 3}})', "Union[int, Dict[str, int]]", "(not isinstance({0}, dict)) or (len({0}) <= 1 and all(k in ('a', 'b') for k in {0}))"),
    "shared_instances": ("m: int", [], '(lambda e, c: Element(properties={"a": Property(e, required=True), "b": Property(e), "ab": Property(c)}, additionalProperties=c, items=[e, e]))(Integer(minimum=m), Object.inline("Sh", properties={"x": Property(Integer(maximum=m))}))', "Dict[str, int]", DPRE1),
    "format_and_literals": ("m: int", [], 'Element(format="uuid", enum=[m, "x", [m], {"b": m}, {}], properties={"a": Property(String(format="uuid"))}, dependencies={"a": ["b"], "b": Element(minProperties=1)})', "Dict[str, int]", DPRE1),
    "defaults": ("d: int, m: int", [], 'parse_s({"type": "object", "title": "D", "properties": {"a": {"type": "integer", "maximum": m, "default": d}, "b": {"type": "array", "default": [1]}}})', DV, DPRE1),
}


def _child(mn):
    from vf.common import Object, Property, Integer

    P = Object.inline("P", properties={"a": Property(Integer(minimum=mn), required=True)}, required=["b"])

    class C(P):  # type: ignore
        ab = Property(Integer())

    return C


def _base_and_child(mn):
    """one tree holding a base model and a subclass of it in different positions"""
    from vf.common import Object, Element, Property, Integer

    P = Object.inline("P", properties={"a": Property(Integer(minimum=mn), required=True)}, additionalProperties=False)

    class C(P):  # type: ignore
        ab = Property(Integer(), required=True)

    return Element(properties={"p": Property(P), "c": Property(C)})


TEMPLATES["base_and_child_branches"] = ("mn: int", [], "_base_and_child(mn)", "Dict[str, Dict[str, int]]",
                                        "len({0}) <= 1 and all(k in ('p', 'c') for k in {0}) and all(len(d) <= 2 and all(k in ('a', 'ab', 'b') for k in d) for d in {0}.values())")


def harnesses(ctx) -> List[H]:
    hs: List[H] = []
    for name, (hargs, hpre, make, vt, vpre) in TEMPLATES.items():
        for k in (1, 2):
            vargs = ", ".join(f"v{i}: {vt}" for i in range(1, k + 1))
            pre = list(hpre) + [vpre.format(f"v{i}") for i in range(1, k + 1)]
            if k == 2:
                pre = [x.replace("<= 3", "<= 2") for x in pre]
                if name.startswith(("declared_matches_pattern", "declared_allof", "nested_bool", "shared_instances", "base_and_child")):
                    pre.append("len(v1) <= 1" if "Union" not in vt else "not isinstance(v1, (dict, list)) or len(v1) <= 1")
                pre.append("len(v2) <= 1" if "Union" not in vt else "not isinstance(v2, dict) or len(v2) <= 1")
            vals = ", ".join(f"v{i}" for i in range(1, k + 1))
            body = f"""
def make():
    return {make}
return pure_history(make, [{vals}])
"""
            hs.append(mk(f"c08_{name}_k{k}", f"{hargs}, {vargs}", pre, body, tier="quick" if k == 1 else "thorough",
                         timeout=300 if k == 1 else 400, group="history", covers=f"{make} ; history of {k} symbolic values, each validated twice"))
        # reachability twin: an accepted call exists
        body = f"""
def make():
    return {make}
return not touched(make, v1)
"""
        hs.append(mk(f"c08_{name}__acc", f"{hargs}, v1: {vt}", list(hpre) + [vpre.format("v1")], body, kind="witness", timeout=30, group="history"))
        # text observables with concrete holes
        body = f"""
mn = m = d = 2
def make():
    return {make}
return pure_history(make, [v1], True)
"""
        hs.append(mk(f"c08_{name}_text", f"v1: {vt}", [vpre.format("v1")], body,
                     tier="quick", timeout=300, group="text", covers="repr/serialize_python unchanged; holes concrete (=2)"))
    hs.append(mk("c08_base_then_child", "mn: int, h: bool, x: int, d: Dict[str, int]", ["len(d) <= 2", "all(k in ('a', 'ab', 'b') for k in d)"], """
def make():
    return _base_and_child(mn)
return pure_history(make, [{"p": ({"a": x} if h else {})}, {"c": d}])
""", timeout=300, group="history", covers="a value for the base-model branch, then any value for the subclass branch of the same tree; the used tree must give the fresh tree's verdict"))
    return hs


def _demo_required_grows():
    from vf.common import Element, Property, Integer, accepts

    el = Element(properties={"a": Property(Integer(), required=True)}, required=["b"])
    before = list(el.required)
    accepts(el, {"a": 1, "b": 2})
    accepts(el, {"a": 1, "b": 2})
    return el.required != before


DEMOS = {"C08-required-grows": _demo_required_grows}
