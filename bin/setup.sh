#!/bin/sh
# Idempotently build the overlay venv used by every check (offline; ~15 s first time).
# /verif/.venv = /venv's interpreter + /venv's site-packages + /repo on sys.path
#               + crosshair-tool / jsonschema / cvc5 from the offline wheelhouse.
set -e
V=/verif/.venv
STAMP=$V/.ok
if [ -f "$STAMP" ] && "$V/bin/python" -c "import crosshair, z3, statham" >/dev/null 2>&1; then
    exit 0
fi
(
  flock 9
  if [ -f "$STAMP" ] && "$V/bin/python" -c "import crosshair, z3, statham" >/dev/null 2>&1; then exit 0; fi
  rm -rf "$V"
  /venv/bin/python -m venv "$V"
  SP=$("$V/bin/python" -c "import sysconfig; print(sysconfig.get_paths()['purelib'])")
  printf "import site; site.addsitedir('/venv/lib/python3.12/site-packages')\n/repo\n" > "$SP/_overlay.pth"
  PIP_NO_INDEX=1 "$V/bin/pip" install -q --no-index --find-links /opt/veriftools/wheels crosshair-tool jsonschema cvc5 >/dev/null 2>&1 \
    || PIP_NO_INDEX=1 "$V/bin/pip" install -q --no-index --find-links /opt/veriftools/wheels crosshair-tool jsonschema
  "$V/bin/python" -c "import crosshair, z3, statham"
  touch "$STAMP"
) 9>/verif/.venv.lock
