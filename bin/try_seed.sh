#!/bin/sh
# usage: bin/try_seed.sh <patch.diff> <pid> [tier]   -- applies a seeded change to /repo, runs the check, ALWAYS reverts
patch=$1; pid=$2; tier=${3:-quick}; shift; shift; shift
if ! git -C /repo diff --quiet; then echo "/repo is dirty"; exit 9; fi
if ! git -C /repo apply --check "$patch" 2>/dev/null; then
  if git -C /repo apply --3way --check "$patch" 2>/dev/null; then echo "(3way)"; else echo "PATCH DOES NOT APPLY: $patch"; exit 8; fi
fi
git -C /repo apply "$patch" || exit 8
# evidence files must describe runs on the UNCHANGED tree: keep the current one aside
[ -f /verif/evidence/$pid.json ] && cp /verif/evidence/$pid.json /tmp/try_seed.$pid.evidence.json
( cd /repo && /venv/bin/python -m pytest -q -p no:cacheprovider --timeout=900 --continue-on-collection-errors 2>&1 | tail -1 )
/verif/bin/check $pid --tier $tier "$@" > /tmp/try_seed.$pid.log 2>&1; rc=$?
git -C /repo checkout -- . 
[ -f /tmp/try_seed.$pid.evidence.json ] && mv /tmp/try_seed.$pid.evidence.json /verif/evidence/$pid.json
echo "rc=$rc"; grep -c "^VIOLATION" /tmp/try_seed.$pid.log; grep "^VIOLATION\|^  harness\|HARNESS-ERROR\|^\[" /tmp/try_seed.$pid.log | head -8 | cut -c1-260
