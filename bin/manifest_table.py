BASE_NOTE = ("Trusted: CrossHair's models of builtins/str/dict, z3, the reference oracle named in the evidence; stubs listed in evidence.assumptions "
             "(error-message formatting, untraced class creation, ordered-set model). Bounded: holds for all inputs within the pre: bounds of each condition; "
             "templates and value shapes are enumerated, not quantified.")
claim("C01", "bounded symbolic execution (CrossHair/z3) of parse_element+Element.__call__ vs reference Draft-6 validator; AST->SMT FP kernel for multipleOf",
      "For every schema template and value shape in the family tables, z3 decides on every execution path of the real parser and validators that the verdict equals ref6's, for all integer/str/bool holes and all values in the shape; counterexamples are replayed on the unstubbed library and cross-checked with jsonschema.",
      BASE_NOTE, "DESIGN.md 3.1, C01")
