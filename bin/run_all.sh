#!/bin/sh
# usage: bin/run_all.sh quick|thorough [ids...]   -> one summary line per property; logs under /tmp/vf_logs
tier=${1:-quick}; shift
ids="$@"; [ -z "$ids" ] && ids="C01 C02 C03 C04 C05 C06 C07 C08 C09 C10 C11 C12 C13 C14 C15 C16 C17 C18 C19 C20"
mkdir -p /tmp/vf_logs
for p in $ids; do
  s=$(date +%s)
  /verif/bin/check $p --tier $tier > /tmp/vf_logs/$p.$tier.log 2>&1; rc=$?
  e=$(date +%s)
  echo "$p rc=$rc $((e-s))s $(grep '^\[' /tmp/vf_logs/$p.$tier.log | tail -1)"
done
