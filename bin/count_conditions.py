#!/usr/bin/env python3
"""prints, per property, the number of claim conditions (and reachability twins) in the quick and thorough tiers"""
import importlib
import json
import sys

sys.path.insert(0, "/verif")


class Ctx:
    def __init__(self, tier):
        self.tier = tier
        self.kf = json.load(open("/verif/known_findings.json"))

    def known(self, key):
        return any(f["key"] == key and f.get("status", "known") == "known" for f in self.kf.get("findings", []))

    def excl(self, key, predicate):
        return [predicate] if self.known(key) else []


for i in range(1, 21):
    pid = "C%02d" % i
    mod = importlib.import_module("vf.props." + pid)
    out = []
    for tier in ("quick", "thorough"):
        hs = mod.harnesses(Ctx(tier))
        sel = [h for h in hs if h.tier == "quick" or tier == "thorough"]
        out.append("%d+%d" % (len([h for h in sel if h.kind == "claim"]), len([h for h in sel if h.kind != "claim"])))
    print(pid, " / ".join(out))
