import json, sys, glob
import jsonschema
s = json.load(open('/root/.vp/EVIDENCE.schema.json'))
for f in sorted(glob.glob('/verif/evidence/*.json')):
    try:
        jsonschema.Draft202012Validator(s).validate(json.load(open(f)))
        print('ok', f)
    except Exception as e:
        print('BAD', f, str(e)[:300])
m = json.load(open('/root/.vp/MANIFEST.schema.json'))
try:
    jsonschema.Draft202012Validator(m).validate(json.load(open('/verif/MANIFEST.json'))); print('manifest ok')
except Exception as e:
    print('MANIFEST BAD', str(e)[:300])
