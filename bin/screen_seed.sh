#!/bin/sh
# usage: bin/screen_seed.sh <tree-with-change> <pid> [tier] [--only x]  -- PRELIMINARY screening of a seeded change without touching /repo:
# the check imports statham from <tree> (PYTHONPATH wins over the overlay .pth).  The decisive run is bin/try_seed.sh (patch applied to /repo).
tree=$1; pid=$2; tier=${3:-quick}; shift; shift; shift
[ -f /verif/evidence/$pid.json ] && cp /verif/evidence/$pid.json /tmp/screen_seed.$pid.evidence.json
VF_SCREEN_TREE=$tree PYTHONPATH=$tree:/verif /verif/.venv/bin/python -m vf.driver $pid --tier $tier "$@" > /tmp/screen_seed.$pid.log 2>&1; rc=$?
[ -f /tmp/screen_seed.$pid.evidence.json ] && mv /tmp/screen_seed.$pid.evidence.json /verif/evidence/$pid.json
echo "$pid rc=$rc"; grep "^VIOLATION\|^  harness\|HARNESS-ERROR\|^\[" /tmp/screen_seed.$pid.log | head -6 | cut -c1-240
