#!/usr/bin/env python3
"""Regenerates /verif/MANIFEST.json from the table below (single source of truth)."""
import json, os

ALL = ["C%02d" % i for i in range(1, 21)]

# property id -> (technique, level text, level note, design section)
CLAIMED = {}
NOT_APPLICABLE = {}

def claim(pid, technique, text, note, ref):
    CLAIMED[pid] = (technique, text, note, ref)

exec(open(os.path.join(os.path.dirname(__file__), "manifest_table.py")).read())

checks = []
for pid in ALL:
    if pid not in CLAIMED:
        continue
    technique, text, note, ref = CLAIMED[pid]
    checks.append({
        "property_id": pid,
        "quick_cmd": f"bin/check {pid} --tier quick",
        "thorough_cmd": f"bin/check {pid} --tier thorough",
        "evidence_file": f"/verif/evidence/{pid}.json",
        "replay_cmd_template": f"bin/check {pid} --replay {{path}}",
        "engine": "crosshair-z3",
        "level_claimed": {"category": "model_checking", "text": text, "design_ref": ref},
        "level_note": note,
        "technique": technique,
    })
na = [{"property_id": p, "reason": NOT_APPLICABLE.get(p, "check not built yet in this round (see DESIGN.md build order); no claim is made")} for p in ALL if p not in CLAIMED]
m = {
    "version": 1,
    "setup_cmd": "sh bin/setup.sh",
    "hooks": {
        "guard": "STATHAM_VERIF",
        "enable": "no source hooks: all instrumentation is harness-side monkeypatching in /verif/vf/prelude.py, applied only inside CrossHair worker processes",
        "baseline_off_cmd": "cd /repo && /venv/bin/python -m pytest -q -p no:cacheprovider --timeout=900 --continue-on-collection-errors",
        "source_commits": [],
        "add_only": True,
    },
    "engines": [
        {"name": "crosshair-z3", "path": "/verif/vf", "serves_properties": sorted(CLAIMED), "kind_free_text": "symbolic execution of the real statham modules (CrossHair 0.0.110 + z3 5.1), one process per harness condition; counterexamples replayed concretely on the unstubbed library"},
        {"name": "ast2smt", "path": "/verif/vf/e2", "serves_properties": [p for p in ("C01", "C10") if p in CLAIMED], "kind_free_text": "AST->SMT (QF_FP/BV) translation of MultipleOf._validate from the current source, decided by z3 and cvc5"},
    ],
    "checks": checks,
    "notes": "Bounded solver-based checking; every verdict is 'holds for all inputs within the pre: bounds recorded in evidence'. Exit 3 = harness error (no claim).",
    "not_applicable": na,
}
json.dump(m, open("/verif/MANIFEST.json", "w"), indent=1)
print("claimed", sorted(CLAIMED), "n/a", [x["property_id"] for x in na])
